"""Candidate pools for C05: per field type, values tagged with the expectation the *property statement* fixes for them.

exp   "accept"  a valid value of the type: the operation must succeed
      "reject"  one of the kinds the statement names as unrepresentable (out-of-range unsigned integer, boolean other
                than 0/1, malformed digest or address, non-bytes for a bytes field): the operation must raise
      "open"    the statement does not decide (wrong kinds it does not name, bytearray for bytes, host bits in a network,
                text with a lone surrogate ...): either outcome is fine, the invariants still apply
conv  what an accepted value must have become (only where the statement or plain value identity fixes it):
      ("int", n) ("bytes", b) ("text", s) ("f64", hex) ("naive", wall7)  -> same wall clock, UTC offset 0
      ("aware",) ("digest", md5, sha1, sha256) ("none",) ("list", [conv...]) or None
kind  coverage label: valid | boundary | outside | malformed | nonbytes | wrongkind | naive | aware | text | epoch |
      bytes-for-text | lone-surrogate | none | empty
"""
from __future__ import annotations

import datetime as _dt
import pathlib

from . import gen

UTC = _dt.timezone.utc


class Cand:
    __slots__ = ("value", "exp", "kind", "conv")

    def __init__(self, value, exp, kind, conv=None):
        self.value = value
        self.exp = exp
        self.kind = kind
        self.conv = conv

    def fresh(self):
        """The value to hand to the library (plain containers are copied so that no two operations share one)."""
        return _fresh(self.value)

    def short(self):
        try:
            s = repr(self.value)
        except Exception as e:  # noqa: BLE001
            s = "<repr %s>" % type(e).__name__
        return s if len(s) <= 70 else s[:70] + "..."


def _fresh(v):
    """copy plain containers (recursively); library objects and scalars are handed over as they are"""
    t = type(v)
    if t in (list, tuple, set):
        return t(_fresh(x) for x in v)
    if t is dict:
        return {k: _fresh(x) for k, x in v.items()}
    return v


def A(v, kind="valid", conv=None):
    return Cand(v, "accept", kind, conv)


def R(v, kind):
    return Cand(v, "reject", kind)


def O(v, kind="wrongkind", conv=None):
    return Cand(v, "open", kind, conv)


NONE = Cand(None, "accept", "none", ("none",))

LONE_SURROGATES = ["\ud800", "a\udbffb", "\udc7f", "\udfff", "\ud83d", "\ud83d\ude00", "x\udd00"]
ESCAPED_TEXT = ["\udc80", "pre\udcfepost", "\udcff\udc80", "caf\udce9"]


def has_lone_surrogate(s):
    """text with a surrogate code point outside the surrogate-escape range U+DC80..U+DCFF"""
    return any(0xD800 <= ord(c) <= 0xDFFF and not 0xDC80 <= ord(c) <= 0xDCFF for c in s)


# ---- Unicode look-alikes of text that a field type parses ---------------------------------------------------
DIGIT_SETS = {"fullwidth": 0xFF10, "arabic-indic": 0x0660, "extended-arabic-indic": 0x06F0, "devanagari": 0x0966, "mathematical-bold": 0x1D7CE, "mathematical-double-struck": 0x1D7D8}
INVISIBLES = ["\u200b", "\u200d", "\u200e", "\u200f", "\u00ad", "\ufeff", "\u0301", "\u2060"]
BLANKS = [" ", "\n", "\t", "\r\n", "\u00a0", "\u3000", "\x0b"]
FULLWIDTH_PUNCT = {".": "\uff0e", ":": "\uff1a", "/": "\uff0f", "-": "\uff0d", "+": "\uff0b"}


def lookalike_variants(text, rng, limit=26):
    """Variants of a well-formed text that LOOK like it (or like a number in it) but are different code points: digits of other
    scripts, full-width punctuation and letters, superscripts / circled / Roman numerals, invisible characters, surrounding
    blanks and newlines, sign / underscore digit separators, radix prefixes, leading zeros."""
    out = []
    digits = [i for i, ch in enumerate(text) if ch in "0123456789"]
    for name, base in DIGIT_SETS.items():
        if digits:
            i = rng.choice(digits)
            out.append(text[:i] + chr(base + int(text[i])) + text[i + 1:])  # one digit
        out.append("".join(chr(base + int(ch)) if ch in "0123456789" else ch for ch in text))  # every digit
    if digits:
        i = rng.choice(digits)
        d = int(text[i])
        for repl in ("\u2070\u00b9\u00b2\u00b3\u2074\u2075\u2076\u2077\u2078\u2079"[d], "\u24ea\u2460\u2461\u2462\u2463\u2464\u2465\u2466\u2467\u2468"[d],
                     "\u2160" if d == 1 else "\u2163", "\u0031\ufe0f\u20e3"):
            out.append(text[:i] + repl + text[i + 1:])
        out += [text[:i] + "0" + text[i:], text[:i] + "+" + text[i:], text[:i] + "-" + text[i:], text[:i] + "0x" + text[i:], text[:i] + "0o" + text[i:],
                text[:i + 1] + "_" + text[i + 1:] if i + 1 < len(text) else text + "_0", text[:i] + text[i] + "_0" + text[i + 1:]]
    for ch, fw in FULLWIDTH_PUNCT.items():
        if ch in text:
            out += [text.replace(ch, fw), text.replace(ch, fw, 1)]
    letters = [i for i, ch in enumerate(text) if ch in "abcdefABCDEF"]
    if letters:
        i = rng.choice(letters)
        out.append(text[:i] + chr(ord(text[i]) - ord("a" if text[i].islower() else "A") + (0xFF41 if text[i].islower() else 0xFF21)) + text[i + 1:])
        out.append("".join(chr(ord(ch) - ord("a") + 0xFF41) if ch in "abcdef" else ch for ch in text))
    for inv in INVISIBLES:
        pos = rng.randrange(len(text) + 1)
        out.append(text[:pos] + inv + text[pos:])
    for b in BLANKS:
        out += [b + text, text + b]
    mid = rng.randrange(1, max(2, len(text)))
    out.append(text[:mid] + " " + text[mid:])
    seen, uniq = set(), []
    for v in out:
        if v != text and v not in seen:
            seen.add(v)
            uniq.append(v)
    rng.shuffle(uniq)
    return uniq[:limit]


def _raises(fn, *a):
    try:
        fn(*a)
        return False
    except Exception:  # noqa: BLE001
        return True


def ip_lookalikes(rng, flavour):
    """look-alikes of addresses / networks; the reference parser of this Python (ipaddress) decides what is malformed"""
    import ipaddress as _ip

    out = []
    if flavour == "network":
        seeds, parse = ["10.0.0.0/8", "192.168.1.0/24", "2001:db8::/32", "::/0"], lambda t: _ip.ip_network(t, strict=False)
    else:
        seeds, parse = ["127.0.0.1", "10.0.0.1", "1.2.3.4", "255.255.255.255", "::1", "fe80::1", "2001:db8::8:800:200c:417a"], _ip.ip_address
    for seed in rng.sample(seeds, 3):
        for v in lookalike_variants(seed, rng, limit=14):
            malformed = _raises(parse, v)
            if flavour == "ipv4-legacy" and v.isascii():
                malformed = False  # the deprecated type parses with inet_aton (trailing blanks, radix prefixes, short forms): left open
            out.append(Cand(v, "reject" if malformed else "open", "lookalike"))
    return out


def hex_lookalikes(rng, nbytes):
    """look-alikes of a hex digest of nbytes; malformed = bytes.fromhex refuses it or it is not nbytes long"""
    good = gen._hex(rng, nbytes)
    out = []
    for v in lookalike_variants(good, rng, limit=16) + [good.replace(good[0], chr(0xFF10 + int(good[0], 16)) if good[0].isdigit() else good[0])]:
        def ok(x=v):
            if len(bytes.fromhex(x)) != nbytes:
                raise ValueError
        out.append((v, _raises(ok)))
    return out


def number_text_lookalikes(rng, seeds=("12", "80", "1", "0", "65535", "1.5", "-7")):
    out = []
    for seed in rng.sample(list(seeds), 3):
        out += lookalike_variants(seed, rng, limit=8)
    return out


# ---- scalar pools -----------------------------------------------------------------------------------
def _uint(bits, rng):
    top = (1 << bits) - 1
    out = [A(v, "boundary", ("int", v)) for v in (0, 1, top - 1, top)]
    out += [A(v, "valid", ("int", v)) for v in (255, 256, 32767, 32768, rng.randint(0, top), rng.randint(0, top))]
    if bits == 32:
        out += [A(v, "valid", ("int", v)) for v in (65535, 65536, 2**31 - 1, 2**31)]
    outside = [-1, top + 1, top + 2, -top, -(top + 1), 2**63, 2**64, -(2**63), 10**30, -(10**30), 2**32, 2**32 + 1]
    if bits == 16:
        outside += [2**31, 2**32 - 1, 65537, 131071]
    out += [R(v, "outside") for v in outside]
    # out-of-range numbers that are not integers: rejected like -1 and MAX+1 (in-range non-integral numbers such as 3.7 are
    # NOT offered: the statement does not name them and the library accepts them today)
    from decimal import Decimal
    from fractions import Fraction

    nonint = [-0.5, -1e-9, top + 0.5, float(top + 1), float(2**32) - 0.5 if bits == 16 else float(2**33), Fraction(-1, 2), Fraction(2 * top + 1, 2),
              Fraction(2 * (top + 1) + 1, 2), Decimal(str(top) + ".9"), Decimal("-0.1"), Decimal(top + 1), -rng.random() - 1e-6, top + 1 + rng.random() * 1000]
    out += [R(v, "outside-nonintegral") for v in nonint]
    out += [O(v) for v in ("12", "abc", "", b"7", [], (1,), True)]
    out += [O(v, "lookalike") for v in number_text_lookalikes(rng)]
    return out


def _boolean(rng):
    out = [A(True, "boundary", ("int", 1)), A(False, "boundary", ("int", 0)), A(1, "boundary", ("int", 1)), A(0, "boundary", ("int", 0))]
    out += [R(v, "outside") for v in (2, -1, 3, -2, 255, 256, 2**32, -(2**31), 10**20, rng.randint(2, 10**6), -rng.randint(1, 10**6))]
    # numbers strictly between / outside 0 and 1 that are not integers: "boolean other than 0/1"
    from decimal import Decimal
    from fractions import Fraction

    out += [R(v, "fractional") for v in (0.5, 0.25, 1e-9, 0.999999, -0.5, 1.5, Fraction(1, 2), Fraction(1, 3), Decimal("0.5"), Decimal("0.001"), rng.uniform(0.001, 0.999))]
    out += [O(v, "wrongkind", ("int", int(v))) for v in (0.0, 1.0, Decimal(1), Fraction(0))]
    out += [O(v, "lookalike") for v in number_text_lookalikes(rng, seeds=("1", "0", "true", "True"))]
    out += [O(v) for v in ("1", "0", "true", "", b"\x01", [], (0,))]
    return out


def _varint(rng):
    vals = list(gen.INT_BOUNDS) + [10**40, -(10**40), 2**200 + 1, rng.randint(-(2**70), 2**70), rng.randint(-1000, 1000)]
    out = [A(v, "boundary" if v in gen.INT_BOUNDS else "valid", ("int", v)) for v in vals]
    out += [O(v) for v in ("12", "-5", "abc", "", b"12", [], True)]
    out += [O(v, "lookalike") for v in number_text_lookalikes(rng)]
    return out


def _float(rng):
    out = []
    for v in gen.FLOAT_BOUNDS + [float("inf"), float("-inf"), float("nan"), gen._f("7ff80000deadbeef"), rng.uniform(-1e9, 1e9)]:
        out.append(A(v, "boundary" if v in gen.FLOAT_BOUNDS else "valid", ("f64", _f64hex(v))))
    out += [A(v, "valid", ("f64", _f64hex(float(v)))) for v in (0, 1, -5, 2**53)]
    out += [O(v) for v in ("1.5", "nan", "abc", "", b"1.5", [], 10**400, True)]
    out += [O(v, "lookalike") for v in number_text_lookalikes(rng, seeds=("1.5", "-0.25", "1e10", "inf", "nan", "12"))]
    return out


def _f64hex(x):
    import struct

    return struct.pack(">d", x).hex()


def _text_cands(rng, cls_lone=True):
    texts = ["", "abc", "a\x00b", "\x00", "日本語", "😀𝔘", "é" * 31, "a" * 32, "é" * 255, "a" * 256, "line1\nline2", "None", gen._rand_text(rng), gen._rand_text(rng)]
    out = [A(s, "empty" if s == "" else "valid", ("text", s)) for s in texts]
    out += [A(s, "boundary", ("text", s)) for s in ESCAPED_TEXT]
    raw = [b"", b"abc", "caf\u00e9".encode(), b"caf\xe9", b"\xff\xfe", b"\x80", bytes(range(256)), b"\x00", "😀".encode(), b"\xed\xa0\x80", gen.bytes_value(rng, "random")]
    out += [A(b, "bytes-for-text", ("text", b.decode("utf-8", "surrogateescape"))) for b in raw]
    if cls_lone:
        out += [O(s, "lone-surrogate", ("text", s)) for s in LONE_SURROGATES]
    return out


def _string(rng):
    look = [A(v, "lookalike", ("text", v)) for v in lookalike_variants("127.0.0.1 id=42", rng, limit=8)]
    return _text_cands(rng) + look + [O(v) for v in (5, 1.5, True, [], ("a",), bytearray(b"ab"))]


def _uri(rng):
    out = [A(s, "valid", ("text", s)) for s in gen.URIS]
    out += [O(b, "bytes-for-text", ("text", b.decode("utf-8", "surrogateescape"))) for b in (b"http://example.com/x", b"http://x/\xff", b"")]
    out += [O(s, "lone-surrogate", ("text", s)) for s in LONE_SURROGATES[:3]]
    out += [O(v) for v in (5, [], 1.5)]
    out += [O(v, "lookalike", ("text", v)) for v in lookalike_variants("http://10.0.0.1:8080/a?b=1", rng, limit=10)]
    return out


def _bytes(rng):
    vals = [b"", b"\x00", b"abc", bytes(range(256)), b"RECORDSTREAM\n", b"\xab" * 70000, gen.bytes_value(rng, "random"), gen.bytes_value(rng, "boundary")]
    out = [A(b, "empty" if b == b"" else "valid", ("bytes", b)) for b in vals]
    out += [R(v, "nonbytes") for v in ("abc", "", "00ff", "\udcff", 5, 0, -1, 2**70, 1.5, [1, 2], [], (1,), True, False, {"a": 1}, _dt.datetime(2020, 1, 1))]
    out += [O(bytearray(b"ab"), "wrongkind", ("bytes", b"ab")), O(memoryview(b"ab"), "wrongkind", ("bytes", b"ab"))]
    return out


def wall(d):
    return [d.year, d.month, d.day, d.hour, d.minute, d.second, d.microsecond]


def _datetime(rng):
    naive = [_dt.datetime(2020, 1, 2, 3, 4, 5, 6), _dt.datetime(1970, 1, 1), _dt.datetime(1969, 12, 31, 23, 59, 59, 999999), _dt.datetime(1, 1, 1),
             _dt.datetime(9999, 12, 31, 23, 59, 59, 999999), _dt.datetime(2038, 1, 19, 3, 14, 8), _dt.datetime(2023, 10, 29, 2, 30), _dt.datetime(2023, 10, 29, 2, 30, fold=1),
             _dt.datetime(rng.randint(1, 9999), rng.randint(1, 12), rng.randint(1, 28), rng.randint(0, 23), rng.randint(0, 59), rng.randint(0, 59), rng.randint(0, 999999))]
    out = [A(d, "naive", ("naive", wall(d))) for d in naive]
    out += [A(d.isoformat(), "naive", ("naive", wall(d))) for d in naive[:3] + naive[5:6] + naive[8:]]
    z = gen._zone("Europe/Amsterdam") or UTC
    aware = [_dt.datetime(2020, 1, 1, tzinfo=UTC), _dt.datetime(2021, 3, 4, 5, 6, 7, 8, tzinfo=_dt.timezone(_dt.timedelta(hours=5, minutes=30))),
             _dt.datetime(2021, 3, 4, 5, 6, 7, tzinfo=_dt.timezone(_dt.timedelta(hours=-12))), _dt.datetime(2023, 10, 29, 2, 30, tzinfo=z, fold=1),
             _dt.datetime(1, 1, 1, tzinfo=UTC), _dt.datetime(9999, 12, 31, 23, 59, 59, 999999, tzinfo=UTC), _dt.datetime(1900, 1, 1, 12, 0, tzinfo=z)]
    out += [A(d, "aware", ("aware",)) for d in aware]
    out += [A(s, "text", ("aware",)) for s in ("2023-01-10T16:12:01Z", "2019-09-26T07:58:30.996+02:00", "2011-11-04 00:05:23+04:00")]
    out += [A(v, "epoch", ("aware",)) for v in (0, 1, -1, 1700000000, 1700000000.5, -86400.25)]
    out += [O(v) for v in ("not a date", "", [], _dt.date(2020, 1, 1), (2020, 1, 1), 10**30, float("nan"))]
    out += [O(b"2023-12-31T13:37:01.123456Z", "bytes-for-text", ("aware",))]
    for seed in ("2023-01-10T16:12:01+02:00", "2019-09-26 07:58:30.996", "1700000000"):
        out += [O(v, "lookalike", ("aware",)) for v in lookalike_variants(seed, rng, limit=7)]
    return out


def _hex(rng, n, upper=False):
    return gen._hex(rng, n, upper)


def _digest(rng):
    m, s1, s2 = _hex(rng, 16), _hex(rng, 20), _hex(rng, 32)
    ok = [(m, s1, s2), (m, None, None), (None, s1, None), (None, None, s2), (None, None, None), [m, None, s2], {"md5": m}, {"sha1": s1, "sha256": s2.upper()}, {},
          (m.upper(), s1.upper(), None), ("00" * 16, "ff" * 20, "00" * 32), {"md5": None}]
    out = []
    for v in ok:
        if isinstance(v, dict):
            t = (v.get("md5"), v.get("sha1"), v.get("sha256"))
        else:
            t = tuple(v)
        out.append(A(v, "empty" if not any(t) else "valid", ("digest",) + tuple(x.lower() if x else None for x in t)))
    bad = [("zz" * 16, None, None), ("aabb", None, None), (None, "aabb", None), (None, None, m), (s1, None, None), (m[:-1], None, None), (m + "0", None, None), (m + "00", None, None),
           ("", None, None), ("g" + m[1:], None, None), (m[:16] + " " + m[17:], None, None), (5, None, None), (None, 1.5, None), {"md5": "zz" * 16}, {"md5": "aabb"}, {"sha256": s1},
           [m, "xyz", None], (m, s1, s2 + "ab")]
    out += [R(v, "malformed") for v in bad]
    # wrong container: neither a (md5, sha1, sha256) sequence nor a mapping
    out += [R(v, "malformed") for v in (m, "", "not a digest", 5, 0, 1.5, True, (), (m,), (m, s1), (m, s1, s2, None), [], [m], {m}, b"\x00" * 16)]
    out += [O(v) for v in ({"foo": "x"}, (m.encode(), None, None), {"md5": m.encode()})]
    for v, malformed in hex_lookalikes(rng, 16):
        out.append(Cand((v, None, None), "reject" if malformed else "open", "lookalike"))
    for v, malformed in hex_lookalikes(rng, 32)[:6]:
        out.append(Cand({"sha256": v}, "reject" if malformed else "open", "lookalike"))
    return out


def digest_attr_cands(rng, which):
    n = {"md5": 16, "sha1": 20, "sha256": 32}[which]
    good = [_hex(rng, n), _hex(rng, n, True), "00" * n, "ff" * n]
    out = [A(v, "valid", ("text", v)) for v in good] + [A(None, "none", ("none",))]
    bad = ["aabb", "", "zz" * n, _hex(rng, n)[:-1], _hex(rng, n) + "00", _hex(rng, n - 1), _hex(rng, n + 1), "g" * (2 * n), _hex(rng, {16: 20, 20: 32, 32: 16}[n]), 5, 1.5, [], (1,)]
    out += [R(v, "malformed") for v in bad]
    out += [O(_hex(rng, n).encode(), "wrongkind")]
    out += [Cand(v, "reject" if malformed else "open", "lookalike") for v, malformed in hex_lookalikes(rng, n)]
    return out


MALFORMED_IP = ["1.2.3", "1.2.3.4.5", "256.1.1.1", "1.2.3.4/24", "::g", "not an ip", "", ":::", "1.2.3.4:80", "12345::1", "1:2:3:4:5:6:7:8:9", "fe80:::1", "1.2.3.-4", "1..2.3",
                "2001:db8::1::2", "0x1.2.3.4.5"]


def _ipaddress(rng):
    good = list(gen.IPS_PLAIN) + gen.IPS_LOW_V6 + gen.IPS_SCOPED + [0, 1, 2**32 - 1, 2**32, 2**64, 2**128 - 1, rng.randrange(2**32), rng.randrange(2**128), b"\x01\x02\x03\x04", b"\x00" * 15 + b"\x01"]
    out = [A(v, "boundary" if v in (0, 2**32 - 1, 2**32, 2**128 - 1) else "valid") for v in good]
    out += [R(v, "malformed") for v in MALFORMED_IP]
    out += [R(v, "malformed") for v in (-1, 2**128, 2**128 + 5, -(2**32), b"\x01\x02\x03", b"\x00" * 5, b"\x00" * 17, b"")]
    out += [O(v) for v in (1.5, [], ("1.2.3.4",), True)]
    out += ip_lookalikes(rng, "address")
    return out


def _ipnetwork(rng):
    out = [A(v, "valid") for v in gen.NETS]
    out += [R(v, "malformed") for v in ("10.0.0.0/33", "not a net", "1.2.3/8", "::/129", "10.0.0.0/8/8", "", "10.0.0.0/-1", "256.0.0.0/8", "::g/64", "1.2.3.4/abc", "/8")]
    out += [O(v, "wrongkind") for v in ("10.0.0.1/8", "2001:db8::1/32", 5, 2**40, 1.5, [], b"\x01\x02\x03\x04", -1, 2**128)]
    out += ip_lookalikes(rng, "network")
    return out


def _ipv4address(rng):
    out = [A(v, "boundary") for v in ("0.0.0.0", "255.255.255.255", 0, 2**32 - 1)]
    out += [A(v, "valid") for v in ("1.2.3.4", "10.1.1.1", 1, rng.randrange(2**32))]
    out += [R(v, "malformed") for v in ("not an ip", "1.2.3.4.5", "256.1.1.1", "::1", "", "1.2.3.4/8", "a.b.c.d", "1.2.3.999")]
    out += [O(v) for v in (-1, 2**32, 2**40, b"\x01\x02\x03\x04", [], 1.5)]  # not "malformed" in the statement's sense: out-of-range integers are accepted today
    out += [c for c in ip_lookalikes(rng, "ipv4-legacy") if ":" not in c.value or c.exp == "reject"]
    return out


def _path(rng):
    from flow.record.fieldtypes import path as fpath

    out = [A(s, "empty" if s == "" else "valid") for s in gen.POSIX_PATHS[:8] + gen.WIN_PATHS[:6] + [""]]
    out += [A(fpath.from_posix(s)) for s in ("/a/b", "", "rel/x", "/sur\udcff")] + [A(fpath.from_windows(s)) for s in ("c:\\windows\\system32", "", "\\\\srv\\share\\f.txt")]
    out += [A(pathlib.PurePosixPath("/x/y")), A(pathlib.PureWindowsPath("c:\\x\\y"))]
    out += [O(v) for v in (5, b"/x", [], 1.5, ("a", "b"))]
    return out


def _command(rng):
    from flow.record.fieldtypes import command as fcommand

    out = [A(s) for s in gen.POSIX_CMDS + gen.WIN_CMDS]
    out += [A(fcommand.from_posix("ls -la /tmp")), A(fcommand.from_windows("c:\\windows\\system32\\cmd.exe /c dir"))]
    out += [O(v) for v in ("", "a 'b", 5, b"ls", [], ("ls", ["-l"]), " ")]
    return out


def _stringlist(rng):
    out = [A([], "empty"), A(["a"]), A(["a", "b\udcff", ""]), A(("t", "u")), A([gen._rand_text(rng) for _ in range(rng.randint(1, 17))])]
    out += [O(v) for v in ("abc", [1, b"x", None, ["n"]], 5, [1.5], {"a": 1})]
    return out


def _dictlist(rng):
    out = [A([], "empty"), A([{}]), A([{"a": 1, "b": "s", "c": None, "d": 1.5, "e": True}]), A(gen.dictlist_value(rng, "random")), A(gen.dictlist_value(rng, "boundary"))]
    out += [O(v) for v in ([1], "ab", 5, [{"a": [1, 2]}], [{"a": {"b": 1}}], ({"a": 1},))]
    return out


def _dynamic(rng):
    from flow.record.fieldtypes import path as fpath
    from flow.record.fieldtypes import string as fstring

    d = _dt.datetime(2020, 1, 2, 3, 4, 5, 6)
    out = [A("s", "valid", ("text", "s")), A("", "empty", ("text", "")), A(b"b\xff", "valid", ("bytes", b"b\xff")), A(True, "valid", ("int", 1)), A(False, "valid", ("int", 0)),
           A(5, "valid", ("int", 5)), A(2**70, "boundary", ("int", 2**70)), A(-(2**63) - 1, "boundary", ("int", -(2**63) - 1)),
           A(_dt.datetime(2021, 3, 4, 5, 6, 7, 8, tzinfo=UTC), "aware", ("aware",)), A(d, "naive", ("naive", wall(d))), A(["a", "b"]), A(("t",)), A([], "empty"),
           A(fpath.from_posix("/x/y")), A(fpath.from_windows("c:\\x")), A(pathlib.PurePosixPath("/x")), A(fstring("typed"), "valid", ("text", "typed"))]
    out += [O(s, "lone-surrogate", ("text", s)) for s in LONE_SURROGATES[:2]]
    out += [O(v) for v in (1.5, {"a": 1}, bytearray(b"x"), {1, 2})]
    return out


_INNER = {}


def inner_records(rng):
    """records and None are the only candidates of a nested-record field (documented pass-through type)"""
    from flow.record import GroupedRecord, RecordDescriptor

    d1 = RecordDescriptor("c05/inner", [("string", "i"), ("uint16", "n")])
    d2 = RecordDescriptor("c05/inner2", [("digest", "d"), ("varint[]", "l"), ("record", "deeper")])
    recs = [d1(i="q", n=7), d1(), d2(d=(_hex(rng, 16), None, None), l=[1, 2**70], deeper=d1(i="deep")), d2()]
    recs.append(GroupedRecord("c05/grp", [d1(i="g1"), d2(l=[3])]))
    return recs


def _record(rng):
    return [A(r) for r in inner_records(rng)]


_SCALAR = {
    "boolean": _boolean, "uint16": lambda r: _uint(16, r), "uint32": lambda r: _uint(32, r), "net.tcp.Port": lambda r: _uint(16, r), "net.udp.Port": lambda r: _uint(16, r),
    "varint": _varint, "filesize": _varint, "unix_file_mode": _varint, "float": _float, "string": _string, "wstring": _string, "uri": _uri, "bytes": _bytes, "datetime": _datetime,
    "digest": _digest, "net.ipaddress": _ipaddress, "net.IPAddress": _ipaddress, "net.ipnetwork": _ipnetwork, "net.IPNetwork": _ipnetwork, "net.ipv4.Address": _ipv4address,
    "path": _path, "command": _command, "stringlist": _stringlist, "dictlist": _dictlist, "dynamic": _dynamic, "record": _record,
}

TYPES = list(gen.SCALAR_TYPES) + [t + "[]" for t in gen.LIST_ELEM_TYPES]


def scalar_pool(base, rng):
    return _SCALAR[base](rng)


def _combine(elems, container=list):
    exp = "accept"
    kind = "valid"
    for e in elems:
        if e.exp == "reject":
            exp, kind = "reject", e.kind
            break
        if e.exp == "open":
            exp, kind = "open", e.kind
    if exp == "accept":
        kinds = [e.kind for e in elems if e.kind not in ("valid",)]
        kind = kinds[0] if kinds else "valid"
    conv = ("list", [e.conv for e in elems]) if exp != "reject" else None
    return Cand(container(e.fresh() for e in elems), exp, kind, conv)


def list_pool(base, rng):
    """Candidates for a T[] field: lists built from the element pool.  One rejected element makes the whole assignment
    one that must be rejected; every element of an accepted list must have been converted to the element type."""
    elems = [c for c in scalar_pool(base, rng) if not (base == "bytes" and len(c.value if isinstance(c.value, bytes) else b"") > 1000)]
    acc = [c for c in elems if c.exp == "accept"]
    rej = [c for c in elems if c.exp == "reject"]
    opn = [c for c in elems if c.exp == "open"]
    out = [Cand([], "accept", "empty", ("list", []))]
    for c in acc:
        out.append(_combine([c]))
    out.append(_combine([rng.choice(acc) for _ in range(rng.choice([2, 3, 15, 16, 17]))]))
    out.append(_combine([rng.choice(acc) for _ in range(3)], container=tuple))
    for c in rej:
        pre = [rng.choice(acc) for _ in range(rng.choice([0, 1, 2]))]
        post = [rng.choice(acc) for _ in range(rng.choice([0, 1]))]
        out.append(_combine(pre + [c] + post))
    for c in opn:
        out.append(_combine([rng.choice(acc)] + [c]))
    if base != "record":
        out += [O(5), O(1.5), O("ab"), O(b"ab"), O({"a": 1})]
    return out


def pool(ftype, rng):
    if ftype.endswith("[]"):
        return list_pool(ftype[:-2], rng)
    return scalar_pool(ftype, rng)
