"""C17 worker: one process per case, because the subject is a writer opened on the process's real standard output.
Usage:  python -m verif.worker_c17 <writer-uri> <history> <seed> <shapes>
        python -m verif.worker_c17 --rdump <rdump arguments...>      (cwd = directory relative names resolve in)
        python -m verif.worker_c17 --state <state> <jobs.json> <status.json>   (process-state family, real output paths)

Builds the deterministic record sequence of the case (verif.io_c17.make_records with fixed `_generated` values, so the
parent can rebuild the identical records), opens RecordWriter(<writer-uri>) - '', '-', 'stream://', 'jsonfile://',
'avro://', ... all mean stdout -, drives it through the history (w = write next record, f = flush, c = close,
x = leave the with-block) and exits.  Standard output carries ONLY what the writer emitted; the status document goes to
standard error as one line 'C17WORKER <json>'.  Nothing is decided here."""
from __future__ import annotations

import json
import os
import sys
import warnings

REPO = os.environ.get("VERIF_REPO", "/repo")
if os.path.realpath(REPO) != "/repo" or os.environ.get("VERIF_FORCE_PATH"):
    sys.path.insert(0, REPO)

warnings.simplefilter("ignore")


def rdump_main(argv):
    """--rdump <input file> <rdump arguments...>: run the real rdump entry point in this process (cwd = the case directory)."""
    import flow.record
    from flow.record.tools import rdump

    status = {"flow_record_file": flow.record.__file__, "created": True, "errors": [], "mode": "rdump"}
    try:
        rc = rdump.main(list(argv))
        status["rdump_rc"] = rc
    except SystemExit as e:
        status["rdump_rc"] = e.code
    except Exception as e:  # noqa: BLE001
        status["errors"].append({"at": 0, "op": "rdump", "exception": "%s: %s" % (type(e).__name__, str(e)[:300])})
    sys.stderr.write("C17WORKER " + json.dumps(status) + "\n")
    sys.stderr.flush()


def apply_state(state):
    """Put the process into the given state BEFORE flow.record is imported and any writer is opened."""
    import io

    note = {}
    aliases = {"close012": "close0+close1+close2", "close012-hold0": "close0+close1+close2+hold0"}
    tokens = aliases.get(state, state).split("+")
    for fd, tok in ((1, "close1"), (0, "close0"), (2, "close2")):
        if tok in tokens:
            os.close(fd)
    if "hold0" in tokens:
        note["held_fd"] = os.open(os.devnull, os.O_RDONLY)  # takes the lowest free descriptor, so the next file lands on the one after
    if "fake-bytesio" in tokens:
        class Capture(io.BytesIO):
            """a BytesIO-like replacement of sys.stdout (no .buffer, no file descriptor)"""

        sys.stdout = Capture()
    if "fake-stringio" in tokens:
        sys.stdout = io.StringIO()
    note["sys_stdout"] = type(sys.stdout).__name__
    return note


def state_main(argv):
    """--state <state> <jobs.json> <status.json>: writers on REAL paths in a process whose standard descriptors / sys.stdout
    are in an unusual state (or 'plain': the state is the interpreter itself, e.g. python -O, or the working directory).
    jobs: [{"uri", "hist", "seed", "shapes", "shape_seq"?, "cwd"?, "dirs"?}...], run one after the other; history letters:
    w write, f flush, c close, x with-exit, d chdir to the next of dirs."""
    state, jobs_path, status_path = argv
    with open(jobs_path) as f:
        jobs = json.load(f)
    status = {"state": state, "jobs": [], "done": False}
    try:
        status["note"] = apply_state(state)
        import flow.record
        from flow.record import RecordWriter

        from verif import io_c17 as io17

        status["flow_record_file"] = flow.record.__file__
        status["optimize"] = sys.flags.optimize
        status["debug"] = __debug__
        for job in jobs:
            hist = job["hist"]
            nw = hist.count("w")
            records = io17.make_records(job["seed"], nw, job["shapes"], generated=io17.fixed_generated(nw), shape_seq=job.get("shape_seq"))
            js = {"errors": [], "created": False, "failed_writes": []}
            status["jobs"].append(js)
            dirs = job.get("dirs") or []
            ndir = 0
            if job.get("cwd"):
                os.chdir(job["cwd"])
            try:
                w = RecordWriter(job["uri"])
            except Exception as e:  # noqa: BLE001
                js["create_error"] = "%s: %s" % (type(e).__name__, str(e)[:300])
                continue
            js["created"] = True
            try:
                js["fileno"] = w.fp.fileno()
            except Exception:  # noqa: BLE001 - not every writer has a file object with a descriptor
                js["fileno"] = None
            if "x" in hist:
                w.__enter__()
            it = iter(records)
            wi = -1
            for pos, op in enumerate(hist):
                try:
                    if op == "w":
                        wi += 1
                        w.write(next(it))
                    elif op == "d":  # the application changes its working directory
                        ndir += 1
                        os.chdir(dirs[ndir % len(dirs)])
                    elif op == "f":
                        w.flush()
                    elif op == "c":
                        w.close()
                    elif op == "x":
                        w.__exit__(None, None, None)
                except Exception as e:  # noqa: BLE001 - the application catches the error and carries on
                    js["errors"].append({"at": pos, "op": op, "exception": "%s: %s" % (type(e).__name__, str(e)[:200])})
                    if op == "w":
                        js["failed_writes"].append(wi)
            del w
        status["done"] = True
    except Exception as e:  # noqa: BLE001
        status["worker_error"] = "%s: %s" % (type(e).__name__, str(e)[:300])
    with open(status_path, "w") as f:
        json.dump(status, f)


def main(argv):
    if argv and argv[0] == "--rdump":
        return rdump_main(argv[1:])
    if argv and argv[0] == "--state":
        return state_main(argv[1:])
    uri, hist, seed, shapes = argv[0], argv[1], int(argv[2]), argv[3]
    import flow.record
    from flow.record import RecordWriter

    from verif import io_c17 as io17

    nw = hist.count("w")
    records = io17.make_records(seed, nw, shapes, generated=io17.fixed_generated(nw))
    status = {"flow_record_file": flow.record.__file__, "n": nw, "errors": [], "created": False}
    try:
        w = RecordWriter(uri)
        status["created"] = True
        status["writer"] = type(w).__name__
        if "x" in hist:
            w.__enter__()
        it = iter(records)
        for pos, op in enumerate(hist):
            try:
                if op == "w":
                    w.write(next(it))
                elif op == "f":
                    w.flush()
                elif op == "c":
                    w.close()
                elif op == "x":
                    w.__exit__(None, None, None)
            except Exception as e:  # noqa: BLE001 - recorded; the parent takes the verdict from the captured bytes
                status["errors"].append({"at": pos, "op": op, "exception": "%s: %s" % (type(e).__name__, str(e)[:200])})
        del w
    except Exception as e:  # noqa: BLE001
        status["create_error"] = "%s: %s" % (type(e).__name__, str(e)[:300])
    sys.stderr.write("C17WORKER " + json.dumps(status) + "\n")
    sys.stderr.flush()
    # no explicit flush of sys.stdout: the interpreter does that at exit, like in any program that uses the writer


if __name__ == "__main__":
    main(sys.argv[1:])
