"""C17 worker: one process per case, because the subject is a writer opened on the process's real standard output.
Usage:  python -m verif.worker_c17 <writer-uri> <history> <seed> <shapes>
        python -m verif.worker_c17 --rdump <rdump arguments...>      (cwd = directory relative names resolve in)

Builds the deterministic record sequence of the case (verif.io_c17.make_records with fixed `_generated` values, so the
parent can rebuild the identical records), opens RecordWriter(<writer-uri>) - '', '-', 'stream://', 'jsonfile://',
'avro://', ... all mean stdout -, drives it through the history (w = write next record, f = flush, c = close,
x = leave the with-block) and exits.  Standard output carries ONLY what the writer emitted; the status document goes to
standard error as one line 'C17WORKER <json>'.  Nothing is decided here."""
from __future__ import annotations

import json
import os
import sys
import warnings

REPO = os.environ.get("VERIF_REPO", "/repo")
if os.path.realpath(REPO) != "/repo" or os.environ.get("VERIF_FORCE_PATH"):
    sys.path.insert(0, REPO)

warnings.simplefilter("ignore")


def rdump_main(argv):
    """--rdump <input file> <rdump arguments...>: run the real rdump entry point in this process (cwd = the case directory)."""
    import flow.record
    from flow.record.tools import rdump

    status = {"flow_record_file": flow.record.__file__, "created": True, "errors": [], "mode": "rdump"}
    try:
        rc = rdump.main(list(argv))
        status["rdump_rc"] = rc
    except SystemExit as e:
        status["rdump_rc"] = e.code
    except Exception as e:  # noqa: BLE001
        status["errors"].append({"at": 0, "op": "rdump", "exception": "%s: %s" % (type(e).__name__, str(e)[:300])})
    sys.stderr.write("C17WORKER " + json.dumps(status) + "\n")
    sys.stderr.flush()


def main(argv):
    if argv and argv[0] == "--rdump":
        return rdump_main(argv[1:])
    uri, hist, seed, shapes = argv[0], argv[1], int(argv[2]), argv[3]
    import flow.record
    from flow.record import RecordWriter

    from verif import io_c17 as io17

    nw = hist.count("w")
    records = io17.make_records(seed, nw, shapes, generated=io17.fixed_generated(nw))
    status = {"flow_record_file": flow.record.__file__, "n": nw, "errors": [], "created": False}
    try:
        w = RecordWriter(uri)
        status["created"] = True
        status["writer"] = type(w).__name__
        if "x" in hist:
            w.__enter__()
        it = iter(records)
        for pos, op in enumerate(hist):
            try:
                if op == "w":
                    w.write(next(it))
                elif op == "f":
                    w.flush()
                elif op == "c":
                    w.close()
                elif op == "x":
                    w.__exit__(None, None, None)
            except Exception as e:  # noqa: BLE001 - recorded; the parent takes the verdict from the captured bytes
                status["errors"].append({"at": pos, "op": op, "exception": "%s: %s" % (type(e).__name__, str(e)[:200])})
        del w
    except Exception as e:  # noqa: BLE001
        status["create_error"] = "%s: %s" % (type(e).__name__, str(e)[:300])
    sys.stderr.write("C17WORKER " + json.dumps(status) + "\n")
    sys.stderr.flush()
    # no explicit flush of sys.stdout: the interpreter does that at exit, like in any program that uses the writer


if __name__ == "__main__":
    main(sys.argv[1:])
