"""Reference semantics of the selector language (DESIGN 3.4): an independent AST walker that gives every node its
*Python* meaning, a support classification of expressions, and the sandbox policy model of C09.

The walker is independent of flow.record.selector (it imports nothing from it).  It does use the record's real field
values and the real `net.*` constructors: "the Python meaning of the expression over the record's field values" is
defined in terms of those objects' own operators.
"""
from __future__ import annotations

import ast
import operator
import re


class Undefined(Exception):
    """Some sub-expression is not defined on this record: the case is outside the property's quantifier."""


class Unsupported(Exception):
    """The expression uses a construct outside the language known to the reference."""


BIN = {
    ast.Add: operator.add, ast.Mult: operator.mul, ast.Div: operator.truediv, ast.Mod: operator.mod, ast.BitAnd: operator.and_,
    ast.BitOr: operator.or_, ast.Sub: operator.sub, ast.FloorDiv: operator.floordiv, ast.Pow: operator.pow, ast.BitXor: operator.xor,
    ast.LShift: operator.lshift, ast.RShift: operator.rshift,
}
CMP = {
    ast.Eq: operator.eq, ast.NotEq: operator.ne, ast.Lt: operator.lt, ast.LtE: operator.le, ast.Gt: operator.gt, ast.GtE: operator.ge,
    ast.Is: operator.is_, ast.IsNot: operator.is_not, ast.In: lambda a, b: a in b, ast.NotIn: lambda a, b: a not in b,
}

MUST_BINOPS = (ast.Add, ast.Mult, ast.Div, ast.Mod, ast.BitAnd, ast.BitOr)
HELPERS = ("lower", "upper", "name", "names", "get_type", "field_contains", "field_equals", "field_regex", "has_field")
BUILTIN_CALLS = ("str", "repr", "any", "all", "fields")


class _Missing:
    def __repr__(self):
        return "<missing field>"


MISSING = _Missing()


def _whitelist():
    from flow.record.whitelist import WHITELIST

    return list(WHITELIST)


def _whitelist_tree():
    tree = {}
    for t in _whitelist():
        node = tree
        parts = t.split(".")
        for p in parts[:-1]:
            node = node.setdefault(p, {})
            if node is True:
                break
        else:
            node[parts[-1]] = True
    return tree


# ---- record proxy and typed matcher ---------------------------------------------------------------
class RefRec:
    """`r`: attribute access on the record's fields; a field the record lacks is MISSING (lenient) or undefined."""

    def __init__(self, rec, lenient):
        object.__setattr__(self, "_rec", rec)
        object.__setattr__(self, "_lenient", lenient)

    def __getattr__(self, k):
        rec = object.__getattribute__(self, "_rec")
        if k == "_desc":
            return rec._desc
        if k.startswith("__"):
            raise Undefined("dunder attribute")
        if _has_field(rec, k):
            return getattr(rec, k)
        if object.__getattribute__(self, "_lenient"):
            return MISSING
        raise Undefined("missing field " + k)


def _has_field(rec, k):
    from flow.record.base import GroupedRecord

    if isinstance(rec, GroupedRecord):
        return any(k in m._desc.get_all_fields() for m in rec.records)
    return k in rec._desc.get_all_fields()


def _fields_of_type(rec, typename):
    return [n for t, n in rec._desc.get_field_tuples() if t == typename]


def _subrecords(rec):
    from flow.record.base import Record

    for t, n in rec._desc.get_field_tuples():
        if t == "record":
            v = getattr(rec, n)
            if v is not None:
                yield v
        elif t == "record[]":
            for v in getattr(rec, n) or []:
                if isinstance(v, Record):
                    yield v


class RefTypeMatch:
    """`Type.<type>[.<attr>...]`: any-of-the-matching-fields semantics, recursing into record / record[] fields."""

    def __init__(self, rec, parts, attrs=()):
        self.rec, self.parts, self.attrs = rec, list(parts), list(attrs)

    def _node(self):
        node = _whitelist_tree()
        for p in self.parts:
            node = node[p]
        return node

    def __getattr__(self, attr):
        if attr.startswith("_"):
            raise Undefined("private attribute on typed matcher")
        node = self._node()
        if node is True:
            return RefTypeMatch(self.rec, self.parts, self.attrs + [attr])
        if attr not in node:
            raise Undefined("no such field type")
        return RefTypeMatch(self.rec, self.parts + [attr])

    @property
    def typename(self):
        if self._node() is not True:
            raise Undefined("incomplete field type path")
        return ".".join(self.parts)

    def __iter__(self):
        return iter(_fields_of_type(self.rec, self.typename))

    def values(self, rec=None):
        rec = rec if rec is not None else self.rec
        for f in _fields_of_type(rec, self.typename):
            v = getattr(rec, f)
            ok = True
            for a in self.attrs:
                if a.startswith("_") or not hasattr(v, a):
                    ok = False
                    break
                v = getattr(v, a)
            if ok:
                yield v
        for sub in _subrecords(rec):
            yield from self.values(sub)

    def any(self, op, other, swap=False):
        for v in self.values():
            if (op(other, v) if swap else op(v, other)):
                return True
        return False


class RefType:
    def __init__(self, rec):
        self._rec = rec

    def __getattr__(self, attr):
        if attr in _whitelist_tree():
            return RefTypeMatch(self._rec, [attr])
        raise Undefined("no such field type root")


# ---- helper functions re-implemented from their documentation ---------------------------------------
def h_lower(s):
    return s.lower() if isinstance(s, str) else s


def h_upper(s):
    return s.upper() if isinstance(s, str) else s


def make_namespace(rec, lenient=False):
    from flow.record.base import GroupedRecord
    from flow.record.fieldtypes import net

    rr = RefRec(rec, lenient)

    def _unwrap(r):
        if r is not rr:
            raise Undefined("helper called on something that is not the record")

    def name(r):
        _unwrap(r)
        return rec._desc.name

    def names(r):
        _unwrap(r)
        if isinstance(rec, GroupedRecord):
            return {m._desc.name for m in rec.records}
        return {rec._desc.name}

    def has_field(r, f):
        _unwrap(r)
        return f in rec._desc.fields

    def get_type(o):
        raise Undefined("get_type exposes implementation class names")

    def fget(f):
        if not isinstance(f, str):
            raise Undefined("field name is not text")
        return getattr(rec, f) if _has_field(rec, f) else MISSING

    def field_equals(r, fields, strings, nocase=True):
        _unwrap(r)
        ss = [h_lower(s) for s in strings] if nocase else list(strings)
        res = False
        for f in fields:
            v = fget(f)
            if v is MISSING:
                continue
            if nocase:
                v = h_lower(v)
            if any(s == v for s in ss):
                res = True
        return res

    def field_contains(r, fields, strings, nocase=True, word_boundary=False):
        _unwrap(r)
        ss = [h_lower(s) for s in strings] if nocase else list(strings)
        res = False
        for f in fields:
            v = fget(f)
            if v is MISSING:
                continue
            if nocase:
                v = h_lower(v)
            for s in ss:
                if not word_boundary:
                    if s in v:
                        res = True
                else:
                    if v is None:
                        if s is None:
                            res = True
                        continue
                    if not isinstance(v, str):
                        continue
                    if re.search(r"\b%s\b" % re.escape(s), v):
                        res = True
        return res

    def field_regex(r, fields, regex):
        _unwrap(r)
        res = False
        for f in fields:
            v = fget(f)
            if v is MISSING:
                continue
            if re.search(regex, v) is not None:
                res = True
        return res

    def fields(typename):
        raise Undefined("fields() returns implementation objects")

    return {
        "r": rr, "Type": RefType(rec), "net": net, "lower": h_lower, "upper": h_upper, "name": name, "names": names, "has_field": has_field,
        "get_type": get_type, "field_equals": field_equals, "field_contains": field_contains, "field_regex": field_regex, "fields": fields,
        "str": str, "repr": repr, "any": any, "all": all, "True": True, "False": False, "None": None,
    }


# ---- the walker -----------------------------------------------------------------------------------
def _ev(node, ns):
    try:
        return _eval(node, ns)
    except (Undefined, Unsupported):
        raise
    except RecursionError:
        raise Undefined("recursion")
    except Exception as e:  # noqa: BLE001 - any Python error makes the sub-expression undefined
        raise Undefined("%s: %s" % (type(e).__name__, e))


def _no_missing(v, what):
    if v is MISSING:
        raise Undefined("missing field used in " + what)
    return v


def _compare(op, a, b):
    if a is MISSING or b is MISSING:
        return False  # the value C08 specifies for a comparison on a field the record lacks
    ta, tb = isinstance(a, RefTypeMatch), isinstance(b, RefTypeMatch)
    if ta and tb:
        raise Undefined("typed matcher on both sides")
    if ta:
        if isinstance(op, (ast.Is, ast.IsNot, ast.NotIn)):
            raise Undefined("operator has no documented meaning on a typed matcher")
        if isinstance(op, ast.In):
            return a.any(lambda v, o: v in o, b)  # reverse membership: any value in the container
        return a.any(CMP[type(op)], b)
    if tb:
        if isinstance(op, ast.In):
            return b.any(lambda v, o: o in v, a)  # 'x' in Type.string: any value contains x
        raise Undefined("typed matcher on the right of a non-membership operator")
    return CMP[type(op)](a, b)


def _eval(n, ns):
    if isinstance(n, ast.Constant):
        return n.value
    if isinstance(n, ast.List):
        return [_no_missing(_ev(e, ns), "list display") for e in n.elts]
    if isinstance(n, ast.Tuple):
        return tuple(_no_missing(_ev(e, ns), "tuple display") for e in n.elts)
    if isinstance(n, ast.Name):
        if n.id in ns:
            return ns[n.id]
        raise Unsupported("name " + n.id)
    if isinstance(n, ast.Attribute):
        o = _no_missing(_ev(n.value, ns), "attribute access")
        if n.attr.startswith("__"):
            raise Unsupported("dunder attribute")
        return getattr(o, n.attr)
    if isinstance(n, ast.BoolOp):
        vals = [_no_missing(_ev(v, ns), "boolean operand") for v in n.values]  # eager: every operand must be defined
        if any(isinstance(v, RefTypeMatch) for v in vals):
            raise Undefined("typed matcher in boolean position")
        if isinstance(n.op, ast.And):
            for v in vals:
                if not v:
                    return v
            return vals[-1]
        for v in vals:
            if v:
                return v
        return vals[-1]
    if isinstance(n, ast.UnaryOp):
        v = _no_missing(_ev(n.operand, ns), "unary operand")
        if isinstance(v, RefTypeMatch):
            raise Undefined("typed matcher in unary position")
        if isinstance(n.op, ast.Not):
            return not v
        if isinstance(n.op, ast.USub):
            return -v
        if isinstance(n.op, ast.UAdd):
            return +v
        if isinstance(n.op, ast.Invert):
            return ~v
    if isinstance(n, ast.BinOp):
        a = _no_missing(_ev(n.left, ns), "arithmetic")
        b = _no_missing(_ev(n.right, ns), "arithmetic")
        if isinstance(a, RefTypeMatch) or isinstance(b, RefTypeMatch):
            raise Undefined("typed matcher in arithmetic")
        return BIN[type(n.op)](a, b)
    if isinstance(n, ast.Compare):
        vals = [_ev(n.left, ns)] + [_ev(c, ns) for c in n.comparators]  # eager operands
        res = True
        for op, a, b in zip(n.ops, vals, vals[1:]):
            res = _compare(op, a, b)
            if not res:
                return res
        return res
    if isinstance(n, ast.IfExp):
        t = _no_missing(_ev(n.test, ns), "condition")
        a, b = _ev(n.body, ns), _ev(n.orelse, ns)
        return a if t else b
    if isinstance(n, ast.Subscript):
        return _no_missing(_ev(n.value, ns), "subscript")[_no_missing(_ev(n.slice, ns), "subscript")]
    if isinstance(n, ast.Call):
        f = _ev(n.func, ns)
        args = [_ev(a, ns) for a in n.args]
        kw = {k.arg: _ev(k.value, ns) for k in n.keywords}
        if f in (any, all):
            if len(args) != 1 or kw:
                raise Undefined("any/all arity")
            seq = [_no_missing(x, "any/all element") for x in _no_missing(args[0], "any/all")]
            if any(isinstance(x, RefTypeMatch) for x in seq):
                raise Undefined("typed matcher as any/all element")
            return f(seq)
        for a in list(args) + list(kw.values()):
            _no_missing(a, "call argument")
        if isinstance(f, RefTypeMatch) or f is MISSING:
            raise Undefined("calling a non-function")
        conv = [list(a) if isinstance(a, RefTypeMatch) else a for a in args]  # a typed matcher unrolls to field names
        return f(*conv, **kw)
    if isinstance(n, ast.GeneratorExp):
        def gen(gens, ns):
            g = gens[0]
            if not isinstance(g.target, ast.Name):
                raise Unsupported("tuple target")
            it = _no_missing(_ev(g.iter, ns), "generator iterable")
            if isinstance(it, RefTypeMatch):
                it = list(it)
            for x in it:
                ns2 = dict(ns)
                ns2[g.target.id] = x
                if not all(_no_missing(_ev(c, ns2), "generator condition") for c in g.ifs):
                    continue
                if len(gens) > 1:
                    yield from gen(gens[1:], ns2)
                else:
                    yield _ev(n.elt, ns2)

        return list(gen(n.generators, ns))  # materialised: every element must be defined
    raise Unsupported(type(n).__name__)


def ref_match(expr, rec, lenient=False):
    """Truth value Python gives to `expr` over the record; raises Undefined / Unsupported."""
    tree = ast.parse(expr, mode="eval")
    v = _ev(tree.body, make_namespace(rec, lenient))
    if v is MISSING:
        raise Undefined("bare missing field")
    if isinstance(v, RefTypeMatch):
        raise Undefined("bare typed matcher")
    try:
        return bool(v)
    except Exception as e:  # noqa: BLE001
        raise Undefined("truth value: %s" % e)


# ---- support classification ------------------------------------------------------------------------
def classify_support(expr):
    """-> ("must" | "may-reject", set of reasons).  From the property text; independent of the engines' tables."""
    tree = ast.parse(expr, mode="eval")
    reasons = set()
    bound_stack = []

    def visit(n, bound):
        if isinstance(n, ast.BinOp) and not isinstance(n.op, MUST_BINOPS):
            reasons.add("operator " + type(n.op).__name__)
        if isinstance(n, ast.UnaryOp) and not isinstance(n.op, ast.Not):
            reasons.add("unary " + type(n.op).__name__)
        if isinstance(n, (ast.IfExp, ast.Subscript, ast.Dict, ast.Set, ast.ListComp, ast.SetComp, ast.DictComp, ast.JoinedStr, ast.Lambda,
                          ast.Starred, ast.NamedExpr, ast.Await, ast.Yield, ast.YieldFrom, ast.Slice)):
            reasons.add("construct " + type(n).__name__)
        if isinstance(n, ast.GeneratorExp):
            inner = set(bound)
            for g in n.generators:
                if not isinstance(g.target, ast.Name):
                    reasons.add("tuple target")
                    continue
                if g.target.id in inner or g.target.id in RESERVED_NAMES:
                    reasons.add("loop variable re-uses a bound name")
                inner.add(g.target.id)
                seen_targets.add(g.target.id)
            for g in n.generators:
                visit(g.iter, inner)
                for c in g.ifs:
                    visit(c, inner)
            visit(n.elt, inner)
            return
        if isinstance(n, ast.Call):
            path = call_path(n)
            if path is None or path.split(".")[0] in bound:
                reasons.add("call target is not a whitelisted name")
            elif path in HELPERS or path in BUILTIN_CALLS:
                if path == "fields":
                    reasons.add("fields() (interpreted engine only)")
                if path == "get_type":
                    reasons.add("get_type() exposes implementation detail")
            elif path in _whitelist():
                if not path.startswith("net."):
                    reasons.add("bare field-type constructor (interpreted engine only)")
            else:
                reasons.add("call target is not a whitelisted name")
        for c in ast.iter_child_nodes(n):
            visit(c, bound)

    seen_targets = set()
    visit(tree.body, set())
    return ("may-reject" if reasons else "must"), reasons


RESERVED_NAMES = set(HELPERS) | set(BUILTIN_CALLS) | {"r", "Type", "net", "None", "True", "False"}


def call_path(call):
    """Dotted path of a call target if it is a pure Name/Attribute chain rooted at a Name, else None."""
    x = call.func
    parts = []
    while isinstance(x, ast.Attribute):
        parts.append(x.attr)
        x = x.value
    if not isinstance(x, ast.Name):
        return None
    parts.append(x.id)
    return ".".join(reversed(parts))


# ---- sandbox policy model (C09) --------------------------------------------------------------------
def sandbox_forbidden(expr):
    """-> list of (reason, evaluated_position: bool) for every forbidden shape in the expression.

    Allowed calls: target is a pure Name/Attribute chain rooted at a *free* name whose dotted path is a helper,
    str/repr/any/all/fields, or on the field-type whitelist.  Forbidden: any other call, any lambda, any attribute or
    bare name starting with a double underscore.  `evaluated_position` is a conservative judgement that the node is
    certainly evaluated whenever the expression is (not inside a generator expression, not in a later link of a chained
    comparison, not after a forbidden shape that already aborts evaluation)."""
    tree = ast.parse(expr, mode="eval")
    out = []
    wl = set(_whitelist())

    def visit(n, bound, certain):
        if isinstance(n, ast.Lambda):
            out.append(("lambda", certain))
            return
        if isinstance(n, ast.Attribute) and n.attr.startswith("__"):
            out.append(("dunder attribute " + n.attr, certain))
        if isinstance(n, ast.Name) and n.id.startswith("__") and n.id not in bound:
            out.append(("dunder name " + n.id, certain))
        if isinstance(n, ast.Call):
            path = call_path(n)
            ok = path is not None and path.split(".")[0] not in bound and (path in HELPERS or path in BUILTIN_CALLS or path in wl)
            if not ok:
                out.append(("call %s" % (path or "<non-name target>"), certain))
        if isinstance(n, ast.GeneratorExp):
            inner = set(bound)
            first = True
            for g in n.generators:
                visit(g.iter, inner, certain and first and False)  # generators are lazy: only evaluated when consumed
                if isinstance(g.target, ast.Name):
                    inner.add(g.target.id)
                for c in g.ifs:
                    visit(c, inner, False)
                first = False
            visit(n.elt, inner, False)
            return
        if isinstance(n, ast.Compare):
            visit(n.left, bound, certain)
            for i, c in enumerate(n.comparators):
                visit(c, bound, certain and i == 0)
            return
        if isinstance(n, ast.BoolOp):
            for i, v in enumerate(n.values):
                visit(v, bound, certain and i == 0)
            return
        if isinstance(n, ast.IfExp):
            visit(n.test, bound, certain)
            visit(n.body, bound, False)
            visit(n.orelse, bound, False)
            return
        for c in ast.iter_child_nodes(n):
            visit(c, bound, certain)

    visit(tree.body, set(), True)
    return out
