"""C12 worker: one process per FLOW_RECORD_IGNORE environment, because flow.record reads that variable at import time.

Usage:  python -m verif.worker_c12      (the script = JSON list of operations on stdin)

Operations (executed with the real public functions, real `with` statements):
    ["probe", label]                      observe the configuration in force
    ["set", container, [names]]           flow.record.base.set_ignored_fields_for_comparison(<container of names>)
    ["enter", container, [names], raise]  with flow.record.base.ignore_fields_for_comparison(<container>): ... up to the matching
    ["exit"]                              ... "exit"; when `raise` is true an exception is raised inside the scope, at its end
A probe reports the module's IGNORE_FIELDS_FOR_COMPARISON (tolerantly) and, per field f in (_generated, _source, n, s), whether a
record equals / hashes like a copy that differs in f only.  Prints ONE line `C12WORKER <json>`; nothing is decided here."""
from __future__ import annotations

import datetime as _dt
import json
import os
import sys
import warnings

REPO = os.environ.get("VERIF_REPO", "/repo")
if os.path.realpath(REPO) != "/repo" or os.environ.get("VERIF_FORCE_PATH"):
    sys.path.insert(0, REPO)

warnings.simplefilter("ignore")

# the record type has fields whose names differ only in case, with capitals and digits: field names are case sensitive
DATA_FIELDS = [("string", "s"), ("varint", "n"), ("string", "userName"), ("string", "username"), ("varint", "EventID"), ("varint", "eventid"), ("string", "Field9")]
FIELDS = ("_generated", "_source", "_classification", "n", "s", "userName", "username", "EventID", "eventid", "Field9")


class _Boom(Exception):
    pass


def container(kind, names):
    names = list(names)
    if kind == "list":
        return names
    if kind == "set":
        return set(names)
    if kind == "tuple":
        return tuple(names)
    if kind == "frozenset":
        return frozenset(names)
    if kind == "dict":
        return {n: 1 for n in names}
    return (n for n in names)


def guarded(fn):
    try:
        return fn()
    except Exception as e:  # noqa: BLE001
        return "raise:" + type(e).__name__


def main():
    script = json.load(sys.stdin)
    import flow.record
    import flow.record.base as base
    from flow.record import RecordDescriptor

    g1 = _dt.datetime(2022, 2, 2, 2, 2, 2, tzinfo=_dt.timezone.utc)
    g2 = _dt.datetime(2011, 1, 1, 1, 1, 1, tzinfo=_dt.timezone.utc)
    d = RecordDescriptor("c12/envscope", DATA_FIELDS)
    basevals = {"s": "x", "n": 1, "userName": "u", "username": "u", "EventID": 4624, "eventid": 4624, "Field9": "f", "_generated": g1, "_source": "A", "_classification": "C"}
    alt = {"s": "y", "n": 2, "userName": "v", "username": "v", "EventID": 4625, "eventid": 4625, "Field9": "g", "_generated": g2, "_source": "B", "_classification": "D"}
    a = d(**basevals)
    others = {f: d(**dict(basevals, **{f: alt[f]})) for f in FIELDS}
    same = d(**basevals)
    probes = []
    turn = [0]

    def entry(what):
        """alternate between the package-level and the defining module's public name"""
        turn[0] += 1
        mod = flow.record if turn[0] % 2 else base
        return getattr(mod, what, None) or getattr(base, what)

    def probe(label):
        try:
            cfg = sorted(str(x) for x in base.IGNORE_FIELDS_FOR_COMPARISON)
        except Exception:  # noqa: BLE001
            cfg = None
        probes.append({"label": label, "config": cfg,
                       "eq": {f: guarded(lambda f=f: a == others[f]) for f in FIELDS},
                       "ne": {f: guarded(lambda f=f: a != others[f]) for f in FIELDS},
                       "hash_eq": {f: guarded(lambda f=f: hash(a) == hash(others[f])) for f in FIELDS},
                       "same_eq": guarded(lambda: a == same), "same_hash_eq": guarded(lambda: hash(a) == hash(same))})

    def run(i):
        """executes operations from index i until the matching 'exit' (or the end); -> index after it"""
        while i < len(script):
            op = script[i]
            if op[0] == "probe":
                probe(op[1])
                i += 1
            elif op[0] == "set":
                entry("set_ignored_fields_for_comparison")(container(op[1], op[2]))
                i += 1
            elif op[0] == "enter":
                nxt = [None]
                try:
                    with entry("ignore_fields_for_comparison")(container(op[1], op[2])):
                        nxt[0] = run(i + 1)
                        if op[3]:
                            raise _Boom()
                except _Boom:
                    pass
                i = nxt[0]
            elif op[0] == "exit":
                return i + 1
            else:
                raise ValueError(op)
        return i

    err = None
    try:
        run(0)
    except Exception as e:  # noqa: BLE001
        err = repr(e)[:300]
    out = {"env": os.environ.get("FLOW_RECORD_IGNORE"), "flow_record_file": flow.record.__file__, "probes": probes, "error": err}
    print("C12WORKER " + json.dumps(out))


if __name__ == "__main__":
    main()
