"""C13 - independent model of timestamp inputs (shared by verif/checks/c13.py and verif/worker_c13.py).

A *spec* is a small JSON-able description of one timestamp input.  `build(spec)` turns it into the Python object that is
handed to flow.record (a stdlib datetime, ISO text, bytes, an epoch number) and `expected(spec, obj)` computes what the
field value must be, WITHOUT the library: a list of acceptable observations [y, mo, d, h, mi, s, us, utcoffset_us].

  * datetime object : same wall clock fields; utcoffset = 0 for naive input, else `obj.utcoffset()` of the ORIGINAL stdlib
                      object (stdlib zoneinfo honours `fold`; a wall time in a DST gap has a well-defined utcoffset too);
  * ISO text        : the text is *rendered* from known components, so the expectation is the components themselves
                      (no parser involved); more than 6 fractional digits: truncation and rounding to the microsecond
                      are both accepted (the statement says "to the microsecond", not which way);
  * epoch number    : exact rational arithmetic: EPOCH + x seconds; a float that is not a whole number of microseconds
                      may be rounded either way (floor and ceiling of the exact value are both accepted).
"""
from __future__ import annotations

import datetime as _dt
import math
import zoneinfo
from fractions import Fraction

UTC = _dt.timezone.utc
EPOCH_NAIVE = _dt.datetime(1970, 1, 1)
MIN_US = -62135596800 * 10**6  # 0001-01-01T00:00:00 UTC in microseconds since the epoch
MAX_US = 253402300799 * 10**6 + 999999  # 9999-12-31T23:59:59.999999 UTC

ZONES = ["Europe/Amsterdam", "America/St_Johns", "Asia/Kolkata", "Asia/Kathmandu", "Australia/Lord_Howe", "America/New_York",
         "Asia/Tokyo", "Pacific/Apia", "Africa/Monrovia", "Europe/Dublin", "America/Sao_Paulo", "Africa/Casablanca"]
FIXED_MIN = [3600, -3600, 7200, 19800, -12600, 45900, 50400, -43200, 86340, -86340, 60, -60, 20700]
FIXED_SEC = [1, -1, 3601, 5 * 3600 + 30 * 60 + 17, -(3 * 3600 + 29 * 60 + 59), 86399, -86399, 1172, -2670, 59, -59]

FORMS = ("obj", "ftobj", "iso", "isobytes", "epoch_int", "epoch_float")
# all-digit TEXT of assorted lengths (str or bytes): only the 8-digit one is ISO 8601 (basic date); for the others the
# stdlib parser is the reference: when it refuses the text nothing is demanded of the value
DIGIT_TEXTS = ["2024", "202401", "20240101", "19691231", "00010101", "99991231", "1700000000", "20240101120000", "0", "1", "2024010", "202401011",
               "19700101", "20380119", "00000000", "12345678"]
ISO_TZ_SPELLINGS = ("colon", "nocolon")  # +hh:mm[:ss] / +hhmm[ss]


_ALL_ZONES = None


def all_zones():
    """Every zone of the system database the stdlib can load (deep mode), without the posix/ right/ duplicates."""
    global _ALL_ZONES
    if _ALL_ZONES is None:
        try:
            names = sorted(zoneinfo.available_timezones())
        except Exception:  # noqa: BLE001
            names = []
        _ALL_ZONES = [n for n in names if not n.startswith(("posix/", "right/")) and n not in ("localtime", "Factory")] or list(ZONES)
    return _ALL_ZONES


def var_offset_seconds(c, fold, a, b):
    """Offset rule of the user-defined tzinfo class VarTZ (independent restatement used by the model)."""
    off = a if c[1] <= 6 else b
    if fold and abs(off - 3600) < 86400:
        off -= 3600
    return off


class VarTZ(_dt.tzinfo):
    """A user-defined tzinfo (not a zoneinfo / timezone object): offset a in the first half of a year, b in the second,
    one hour less for fold=1.  No dst(), no fromutc() override."""

    def __init__(self, a, b):
        self.a, self.b = a, b

    def utcoffset(self, dt):
        if dt is None:
            return _dt.timedelta(seconds=self.a)
        return _dt.timedelta(seconds=var_offset_seconds([dt.year, dt.month], dt.fold, self.a, self.b))

    def dst(self, dt):
        return None

    def tzname(self, dt):
        return "VAR"

    def __repr__(self):
        return "VarTZ(%d, %d)" % (self.a, self.b)

    def __reduce__(self):
        return (VarTZ, (self.a, self.b))


class SubDT(_dt.datetime):
    """A datetime subclass as applications define them (input form 'objsub')."""


def zone(name):
    try:
        return zoneinfo.ZoneInfo(name)
    except Exception:  # zone database missing on this machine: the caller falls back to a fixed offset
        return None


_AMBIG_CACHE = {}


def ambiguous_walls(zname, year):
    """Wall times (30-minute grid) of `zname` in `year` whose utcoffset depends on `fold`, found with the stdlib zone
    database: -> [(naive datetime, 'fold' | 'gap')].  fold: the wall time happens twice; gap: it does not exist."""
    key = (zname, year)
    if key in _AMBIG_CACHE:
        return _AMBIG_CACHE[key]
    z = zone(zname)
    out = []
    if z is not None:
        # days on which the offset changes (compared at consecutive midnights), then the 30-minute grid of those days
        day = _dt.datetime(year, 1, 1)
        one = _dt.timedelta(days=1)
        days = []
        while day.year == year:
            nxt = day + one
            if nxt.year == year and day.replace(tzinfo=z).utcoffset() != nxt.replace(tzinfo=z).utcoffset():
                days.extend([day, nxt])
            day = nxt
        step = _dt.timedelta(minutes=30)
        for day in days:
            for k in range(48):
                t = day + k * step
                o0 = t.replace(tzinfo=z, fold=0).utcoffset()
                o1 = t.replace(tzinfo=z, fold=1).utcoffset()
                if o0 != o1 and not any(t == w for w, _ in out):
                    # in a fold the first occurrence has the larger offset (clocks go back); in a gap fold=0 gives
                    # the offset before the transition, which is the smaller one
                    out.append((t, "fold" if o0 > o1 else "gap"))
    _AMBIG_CACHE[key] = out
    return out


def td_us(td):
    return (td.days * 86400 + td.seconds) * 10**6 + td.microseconds


def wall_us(c):
    """Microseconds of a wall clock tuple (y, mo, d, h, mi, s, us) since 1970-01-01T00:00 on the same wall clock."""
    return td_us(_dt.datetime(*c) - EPOCH_NAIVE)


def utc_us(ob):
    """UTC instant (microseconds since the epoch) of an observation [y,mo,d,h,mi,s,us,off_us]; pure integer arithmetic."""
    return wall_us(ob[:7]) - ob[7]


def utc_representable(ob):
    if ob[7] is None:  # naive observation (only on a broken tree): nothing to normalise
        return False
    return MIN_US <= utc_us(ob) <= MAX_US


def us_to_wall(us):
    t = EPOCH_NAIVE + _dt.timedelta(microseconds=us)
    return [t.year, t.month, t.day, t.hour, t.minute, t.second, t.microsecond]


def observe_dt(v):
    """Observation of any datetime: wall clock fields + utcoffset in microseconds (None when naive)."""
    off = v.utcoffset()
    return [v.year, v.month, v.day, v.hour, v.minute, v.second, v.microsecond, None if off is None else td_us(off)]


# ---- generation -------------------------------------------------------------------------------------
def _rand_components(rng):
    r = rng.random()
    if r < 0.12:
        y = rng.choice([1, 2, 9998, 9999])
    elif r < 0.3:
        y = rng.choice([1969, 1970, 1969, 1970, 1971, 2038, 1901, 1900, 1883, 1582])
    elif r < 0.6:
        y = rng.randint(1960, 2040)
    else:
        y = rng.randint(1, 9999)
    mo = rng.randint(1, 12)
    d = rng.randint(1, 28)
    if y in (1, 1970) and rng.random() < 0.5:
        mo, d = 1, 1
    if y in (9999, 1969) and rng.random() < 0.5:
        mo, d = 12, 31
    h, mi, s = rng.randint(0, 23), rng.randint(0, 59), rng.randint(0, 59)
    if rng.random() < 0.15:
        h, mi, s = rng.choice([(0, 0, 0), (23, 59, 59), (1, 11, 34), (1, 11, 35)])
    us = rng.choice([0, 0, 1, 999999, 500000, 967295, 967296, rng.randint(0, 999999), rng.randint(0, 999999)])
    return [y, mo, d, h, mi, s, us]


def _rand_tz(rng, deep=False):
    """-> tz spec: None | ["utc"] | ["fixed", secs] | ["zone", name] | ["custom", a, b] (deep mode)"""
    r = rng.random()
    if deep and r > 0.9:
        return ["custom", rng.choice(FIXED_MIN + FIXED_SEC), rng.choice(FIXED_MIN + FIXED_SEC + [0])]
    if deep and r > 0.62:
        return ["zone", rng.choice(all_zones())]
    if r < 0.15:
        return None
    if r < 0.28:
        return ["utc"]
    if r < 0.45:
        return ["fixed", rng.choice(FIXED_MIN)]
    if r < 0.62:
        return ["fixed", rng.choice(FIXED_SEC + [rng.randint(-86399, 86399)])]
    return ["zone", rng.choice(ZONES)]


def gen_spec(rng, form=None, want=None, deep=False):
    """One timestamp input spec.  `want` in (None, 'fold', 'gap', 'lmt', 'edge', 'avro_threshold') biases the datetime."""
    form = form or rng.choice(FORMS)
    if deep and form == "obj" and rng.random() < 0.25:
        form = "objsub"
    if form in ("epoch_int", "epoch_float"):
        return _gen_epoch(rng, form, want)
    if form in ("iso", "isobytes") and rng.random() < 0.06:
        return {"form": "digits", "text": rng.choice(DIGIT_TEXTS), "bytes": form == "isobytes"}
    c = _rand_components(rng)
    tz = _rand_tz(rng, deep)
    fold = rng.choice([0, 0, 1])
    objform = form in ("obj", "ftobj", "objsub")
    if form in ("iso", "isobytes") and tz and tz[0] in ("zone", "custom"):
        tz = ["fixed", rng.choice(FIXED_MIN + FIXED_SEC)]  # text carries offsets, not zone names
    if want in ("fold", "gap") and objform:
        zname = rng.choice(ZONES[:6] + ZONES[9:])
        year = rng.choice([rng.randint(1975, 2037), 2023, 2021])
        if deep and rng.random() < 0.8:
            # any zone of the database, any year since 1900: 30-minute and 24-hour shifts, negative DST, LMT switches
            zname = rng.choice(all_zones())
            year = rng.randint(1900, 2037)
        walls = [w for w, kind in ambiguous_walls(zname, year) if kind == want]
        if walls:
            w = rng.choice(walls) + _dt.timedelta(minutes=rng.choice([0, 0, 1, 15, 29]), seconds=rng.choice([0, 59]),
                                                  microseconds=rng.choice([0, 1, 999999]))
            c = [w.year, w.month, w.day, w.hour, w.minute, w.second, w.microsecond]
            tz = ["zone", zname]
            fold = rng.choice([0, 1])
    elif want == "lmt" and objform:
        c[0] = rng.randint(1800, 1905)
        tz = ["zone", rng.choice(all_zones() if deep else ZONES)]
    elif want == "edge":
        # year 1 / 9999 with an offset: the UTC instant may fall outside years 1..9999 (the wall clock stays inside)
        if rng.random() < 0.5:
            c[:3] = [1, 1, rng.choice([1, 1, 2])]
        else:
            c[:3] = [9999, 12, rng.choice([31, 31, 30])]
        if tz is None or tz[0] == "zone":
            tz = rng.choice([None, ["utc"], ["fixed", 50400], ["fixed", -43200], ["fixed", 3600], ["fixed", -3600], ["fixed", 86399],
                             ["fixed", -86399], ["zone", "Europe/Amsterdam"], ["zone", "America/St_Johns"], ["zone", "Asia/Tokyo"]])
            if form in ("iso", "isobytes") and tz and tz[0] == "zone":
                tz = ["fixed", 3600]
    elif want == "avro_threshold":
        # instants whose microsecond count is around 0xFFFFFFFF, zero, and just negative
        us = rng.choice([0xFFFFFFFF - 1, 0xFFFFFFFF, 0xFFFFFFFF + 1, 0, 1, -1, -0xFFFFFFFF, 1000000, 86400 * 10**6, -86400 * 10**6,
                         rng.randint(-0xFFFFFFFF, 0xFFFFFFFF)])
        c = us_to_wall(us)
        tz = rng.choice([None, ["utc"]])
    if tz and tz[0] == "zone" and zone(tz[1]) is None:
        tz = ["fixed", 3600]  # zone database not available on this machine: stay inside the class with a fixed offset
    spec = {"form": form, "c": c, "tz": tz, "fold": fold}
    if form in ("iso", "isobytes"):
        spec["sep"] = rng.choice(["T", "T", " "])
        # number of fractional digits written; >6 = sub-microsecond digits follow the microseconds
        spec["fd"] = rng.choice([0, 6, 6, 3, 1, 9, 9, 15]) if c[6] else rng.choice([0, 0, 6, 9])
        spec["extra"] = "".join(rng.choice("0123456789") for _ in range(max(0, spec["fd"] - 6)))
        if spec["fd"] and spec["fd"] < 6:
            # fewer digits than microseconds: make the microseconds representable in that many digits
            q = 10 ** (6 - spec["fd"])
            c[6] = (c[6] // q) * q
        if spec["fd"] == 0:
            c[6] = 0
        spec["tzs"] = rng.choice(ISO_TZ_SPELLINGS)
        spec["z"] = bool(tz == ["utc"] and rng.random() < 0.6)
        # ISO 8601 spelling family: extended (default), basic (no separators), date only, week dates
        style = rng.choice(["ext", "ext", "ext", "basic", "basic", "date-basic", "date-basic", "date-ext", "week-ext", "week-basic"])
        if style in ("week-ext", "week-basic"):
            iy = _dt.date(c[0], c[1], c[2]).isocalendar()[0]
            if not 1 <= iy <= 9999:
                style = "ext"
        if style in ("date-basic", "date-ext") or (style.startswith("week") and rng.random() < 0.5):
            # no time part: midnight, no offset (naive => UTC)
            c[3:] = [0, 0, 0, 0]
            spec["tz"] = None
            spec["fd"] = 0
            spec["notime"] = True
        if style == "basic":
            spec["sep"] = "T"
            spec["tzs"] = "nocolon"
        if style == "week-ext":
            spec["sep"] = "T"
            spec["tzs"] = "colon"
        if style == "week-basic":
            spec["sep"] = "T"
            spec["tzs"] = "nocolon"
        spec["style"] = style
    return spec


def _gen_epoch(rng, form, want):
    lo, hi = -62135596800, 253402300799
    r = rng.random()
    if want == "avro_threshold" or r < 0.25:
        n = rng.choice([0, 1, -1, 4294, 4295, -4294, -4295, 86400, -86400, 0xFFFFFFFF, 0x7FFFFFFF, 0x80000000, -0x80000000, 3600, -3600])
    elif want == "edge" or r < 0.35:
        n = rng.choice([lo, lo + 1, hi, hi - 1, lo + 86400, hi - 86400])
    elif r < 0.7:
        n = rng.randint(-10**9, 2 * 10**9)
    else:
        n = rng.randint(lo, hi)
    if form == "epoch_int":
        return {"form": form, "n": n}
    # float: n + j/64 is exact both as a double (|n| < 2**46) and as a whole number of microseconds (1/64 s = 15625 us);
    # "inexact" floats exercise the rounding tolerance of the model
    if rng.random() < 0.6:
        j = rng.randint(0, 63)
        if n == hi and j:
            n -= 1
        return {"form": form, "n": n, "j": j}
    x = n + rng.random()
    if not (lo <= x <= hi):
        x = float(n)
    return {"form": form, "x": x.hex()}


def tzinfo_of(tz):
    if tz is None:
        return None
    if tz[0] == "utc":
        return UTC
    if tz[0] == "fixed":
        return _dt.timezone(_dt.timedelta(seconds=tz[1]))
    if tz[0] == "custom":
        return VarTZ(tz[1], tz[2])
    z = zone(tz[1])
    if z is None:
        raise LookupError("zone %s not available" % tz[1])
    return z


def _fmt_offset(secs, spelling):
    sign = "+" if secs >= 0 else "-"
    a = abs(secs)
    hh, mm, ss = a // 3600, (a // 60) % 60, a % 60
    if spelling == "colon":
        return "%s%02d:%02d" % (sign, hh, mm) + (":%02d" % ss if ss else "")
    return "%s%02d%02d" % (sign, hh, mm) + ("%02d" % ss if ss else "")


def render_iso(spec):
    y, mo, d, h, mi, s, us = spec["c"]
    style = spec.get("style", "ext")
    if style in ("week-ext", "week-basic"):
        iy, iw, iwd = _dt.date(y, mo, d).isocalendar()[:3]
        date = ("%04d-W%02d-%d" if style == "week-ext" else "%04dW%02d%d") % (iy, iw, iwd)
    elif style in ("basic", "date-basic"):
        date = "%04d%02d%02d" % (y, mo, d)
    else:
        date = "%04d-%02d-%02d" % (y, mo, d)
    if spec.get("notime"):
        return date
    basic = style in ("basic", "week-basic")
    out = date + spec["sep"] + (("%02d%02d%02d" if basic else "%02d:%02d:%02d") % (h, mi, s))
    fd = spec["fd"]
    if fd:
        digits = "%06d" % us
        out += "." + (digits[:fd] if fd <= 6 else digits + spec["extra"])
    tz = spec["tz"]
    if tz is None:
        return out
    if tz[0] == "utc":
        return out + ("Z" if spec["z"] else _fmt_offset(0, spec["tzs"]))
    return out + _fmt_offset(tz[1], spec["tzs"])


def foreign_text_spec(rng, fd, sep, tzs, z, deep=False):
    """ISO text as OTHER producers write it: a chosen number of fractional digits (0..9), separator 'T' / ' ' / 't',
    offset spelled Z / +hhmm / +hh:mm[:ss].  The expectation stays the components."""
    sp = gen_spec(rng, "iso", rng.choice(WANTS), deep)
    while sp["form"] != "iso" or sp.get("notime") or sp.get("style", "ext") != "ext":
        sp = gen_spec(rng, "iso", None, deep)
    c = sp["c"]
    sp["fd"] = fd
    sp["extra"] = "".join(rng.choice("0123456789") for _ in range(max(0, fd - 6)))
    if fd == 0:
        c[6] = 0
    elif fd < 6:
        q = 10 ** (6 - fd)
        c[6] = (c[6] // q) * q or q * rng.randint(1, 9)  # keep a non-zero fraction: '.5' must not be read as '.000005'
    elif not c[6]:
        c[6] = rng.randint(1, 999999)
    sp["sep"] = sep
    sp["tzs"] = tzs
    sp["z"] = bool(z and sp["tz"] == ["utc"])
    return sp


def stdlib_reference(spec):
    """What this Python's datetime.fromisoformat makes of the text (naive => UTC), as an observation; None when the
    stdlib does not accept the spelling (then the text is outside the ISO class of this interpreter)."""
    if spec["form"] == "digits":
        text = spec["text"]
    else:
        text = render_iso(spec)
    try:
        v = _dt.datetime.fromisoformat(text)
    except ValueError:
        return None
    if v.tzinfo is None:
        v = v.replace(tzinfo=UTC)
    return observe_dt(v)


def build(spec, ftmod=None):
    """-> the Python object handed to the library.  `ftmod` = flow.record.fieldtypes, needed only for form 'ftobj'."""
    form = spec["form"]
    if form == "digits":
        return spec["text"].encode("ascii") if spec["bytes"] else spec["text"]
    if form == "epoch_int":
        return spec["n"]
    if form == "epoch_float":
        if "x" in spec:
            return float.fromhex(spec["x"])
        return spec["n"] + spec["j"] / 64.0
    if form in ("iso", "isobytes"):
        text = render_iso(spec)
        return text.encode("ascii") if form == "isobytes" else text
    tzinfo = tzinfo_of(spec["tz"])
    if form == "ftobj":
        # the field type's own constructor with component arguments
        return ftmod.datetime(*spec["c"], tzinfo=tzinfo, fold=spec["fold"])
    if form == "objsub":
        return SubDT(*spec["c"], tzinfo=tzinfo, fold=spec["fold"])
    return _dt.datetime(*spec["c"], tzinfo=tzinfo, fold=spec["fold"])


def expected(spec, obj=None):
    """-> list of acceptable observations [y,mo,d,h,mi,s,us,off_us] for the field value built from this input."""
    form = spec["form"]
    if form == "digits":
        ref = stdlib_reference(spec)
        return [ref] if ref is not None else None  # None: nothing demanded (the library may refuse the text)
    if form == "epoch_int":
        return [us_to_wall(spec["n"] * 10**6) + [0]]
    if form == "epoch_float":
        if "x" in spec:
            exact = Fraction(float.fromhex(spec["x"])) * 10**6
            lo, hi = math.floor(exact), math.ceil(exact)
            return [us_to_wall(u) + [0] for u in sorted({lo, hi}) if MIN_US <= u <= MAX_US]
        return [us_to_wall(spec["n"] * 10**6 + spec["j"] * 15625) + [0]]
    c = list(spec["c"])
    tz = spec["tz"]
    if form in ("iso", "isobytes"):
        off = 0 if tz is None or tz[0] == "utc" else tz[1] * 10**6
        outs = [c + [off]]
        if spec["fd"] > 6 and spec["extra"] and int(spec["extra"][0]) >= 5:
            up = wall_us(c) + 1  # rounding to the nearest microsecond instead of truncating
            if wall_us([1, 1, 1, 0, 0, 0, 0]) <= up <= wall_us([9999, 12, 31, 23, 59, 59, 999999]):
                outs.append(us_to_wall(up) + [off])
        return outs
    # datetime objects: the offset comes from the ORIGINAL stdlib object (for 'ftobj' an equivalent stdlib object)
    if tz is None:
        off = 0
    elif tz[0] == "utc":
        off = 0
    elif tz[0] == "fixed":
        off = tz[1] * 10**6
    elif tz[0] == "custom":
        off = var_offset_seconds(c, spec["fold"], tz[1], tz[2]) * 10**6
    else:
        ref = _dt.datetime(*c, tzinfo=tzinfo_of(tz), fold=spec["fold"])
        off = td_us(ref.utcoffset())
    return [c + [off]]


def tzkind(spec):
    """Coverage tag of the tzinfo kind of an input."""
    form = spec["form"]
    if form.startswith("epoch"):
        return "epoch"
    if form == "digits":
        return "digits-%d" % len(spec["text"])
    tz = spec["tz"]
    if tz is None:
        return "naive"
    if tz[0] == "utc":
        return "utc"
    if tz[0] == "fixed":
        return "fixed-sec" if tz[1] % 60 else "fixed-min"
    if tz[0] == "custom":
        return "custom-tzinfo-fold%d" % spec["fold"]
    c = spec["c"]
    z = zone(tz[1])
    if z is None:
        return "zone-missing"
    t = _dt.datetime(*c)
    o0 = t.replace(tzinfo=z, fold=0).utcoffset()
    o1 = t.replace(tzinfo=z, fold=1).utcoffset()
    if o0 != o1:
        return "zone-%s-fold%d" % ("fold" if o0 > o1 else "gap", spec["fold"])
    if td_us(o0) % (60 * 10**6):
        return "zone-lmt"
    return "zone-plain"


WANTS = (None, None, None, "fold", "gap", "lmt", "edge", "avro_threshold")


def make_specs(rng, n, deep=False):
    """`n` specs cycling through the input forms and the biased datetime families.  Only inputs with a defined
    expectation (all-digit texts the stdlib parser refuses are drawn again; see make_undefined_texts)."""
    out = []
    i = 0
    while len(out) < n:
        form = FORMS[i % len(FORMS)] if rng.random() < 0.7 else rng.choice(FORMS)
        i += 1
        want = rng.choice(WANTS)
        if want in ("fold", "gap", "lmt") and form not in ("obj", "ftobj"):
            form = rng.choice(["obj", "obj", "ftobj"])
        sp = gen_spec(rng, form, want, deep)
        if expected(sp) is None:
            continue
        out.append(sp)
    return out


def make_undefined_texts(rng, k):
    """All-digit texts that this Python's ISO parser refuses: nothing is demanded of the value, only that an accepted
    one is timezone-aware."""
    pool = [t for t in DIGIT_TEXTS if stdlib_reference({"form": "digits", "text": t}) is None]
    return [{"form": "digits", "text": rng.choice(pool), "bytes": rng.random() < 0.4} for _ in range(k)] if pool else []
