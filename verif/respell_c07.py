"""C07 part 1n: selector texts whose string literals hold RAW whitespace runs, through every way a selector object is
(re)built from text: Selector, CompiledSelector, make_selector(.., force_compiled=True) and selectors rebuilt from the
str() / repr() of another selector object.  Every verdict must equal the reference."""
from __future__ import annotations

import ast

RESPELL_VALUES = ["a  b", "a b", "a\tb", "x   y  z", "a \n b", " lead  space", "trail  ", "a\t\tb", "a\n\nb", "ab"]
TQ = "'" * 3


def respell_records():
    from flow.record import RecordDescriptor

    D = RecordDescriptor("sel/ws", [("string", "cmd"), ("string[]", "l"), ("varint", "n")])
    return [D(cmd=v, l=[v, "x  y"], n=i) for i, v in enumerate(RESPELL_VALUES)]


def respell_exprs():
    """Raw characters inside the literals (no escapes): several blanks, tabs, and line feeds inside triple-quoted
    literals; plus whitespace runs BETWEEN tokens, which an implementation is free to rewrite."""
    out = []
    for v in RESPELL_VALUES:
        lit = (TQ + v + TQ) if "\n" in v else ("'" + v + "'")
        out += ["r.cmd == %s" % lit, "r.cmd  !=   %s" % lit, "%s in r.l" % lit, "r.cmd in [%s,  'q']" % lit, "%s in r.cmd + 'x'" % lit,
                "field_equals(r, ['cmd'], [%s])" % lit, "field_contains(r,  ['cmd'],\t[%s], nocase=False)" % lit, "lower(r.cmd) == lower(%s)" % lit,
                "any(x == %s for x in r.l)" % lit, "r.cmd   ==   %s   or   r.n == 99" % lit]
    out += ['r.cmd == "a  b" and r.n   ==   0', "r.cmd == 'a  b' and\tr.n == 0", "(r.cmd ==\n 'a  b')"]
    return list(dict.fromkeys(out))


def forms(expr):
    """name -> zero-argument builder of a selector object for the text."""
    from flow.record.selector import CompiledSelector, Selector, make_selector

    return {
        "Selector(text)": lambda: Selector(expr),
        "CompiledSelector(text)": lambda: CompiledSelector(expr),
        "make_selector(Selector(text), force_compiled=True)": lambda: make_selector(Selector(expr), force_compiled=True),
        "make_selector(text, force_compiled=True)": lambda: make_selector(expr, force_compiled=True),
        "make_selector(text)": lambda: make_selector(expr),
        "CompiledSelector(str(Selector(text)))": lambda: CompiledSelector(str(Selector(expr))),
        "Selector(str(CompiledSelector(text)))": lambda: Selector(str(CompiledSelector(expr))),
        "Selector(<argument shown by repr(Selector(text))>)": lambda: Selector(ast.literal_eval(repr(Selector(expr))[len("Selector("):-1])),
    }
