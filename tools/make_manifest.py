"""Regenerate /verif/MANIFEST.json from the check modules that exist (verif/checks/cNN.py) and meta in manifest_meta.json."""
import importlib
import json
import os
import sys

HERE = os.path.dirname(os.path.dirname(os.path.abspath(__file__)))
sys.path.insert(0, HERE)
meta = json.load(open(os.path.join(HERE, "manifest_meta.json")))
props = [json.loads(l)["id"] for l in open(os.path.join(HERE, "properties.jsonl"))]
checks, na = [], []
for pid in props:
    path = os.path.join(HERE, "verif", "checks", pid.lower() + ".py")
    m = meta["checks"].get(pid)
    if not os.path.exists(path) or not m or m.get("disabled"):
        na.append({"property_id": pid, "reason": (m or {}).get("na_reason", "check not built yet")})
        continue
    src = open(path).read()
    level = "fault_enumeration" if 'LEVEL = "fault_enumeration"' in src else "exploration"
    checks.append({
        "property_id": pid,
        "quick_cmd": "./check %s --tier quick" % pid,
        "thorough_cmd": "./check %s --tier thorough" % pid,
        "evidence_file": "evidence/%s.json" % pid,
        "replay_cmd_template": "./check %s --replay {path}" % pid,
        "engine": "verif",
        "level_claimed": {"category": level, "text": m["level_text"], "design_ref": "DESIGN.md section 4, " + pid},
        "level_note": m["level_note"],
        "technique": m["technique"],
    })
out = {
    "version": 1,
    "setup_cmd": meta["setup_cmd"],
    "hooks": meta["hooks"],
    "engines": [{"name": "verif", "path": "verif/", "serves_properties": [c["property_id"] for c in checks],
                 "kind_free_text": "runtime monitoring: seeded hostile workloads driven through the real flow.record code from /repo's working tree, boundary recorders + independent reference models (stream codec, selector semantics, composition / rdump / SQLite transaction models), invariant hooks, audit-hook and sys.monitoring tripwires, fault injection at file-object boundaries"}],
    "checks": checks,
    "notes": meta["notes"],
    "not_applicable": na,
}
json.dump(out, open(os.path.join(HERE, "MANIFEST.json"), "w"), indent=1)
print("checks:", [c["property_id"] for c in checks], "not claimed:", [n["property_id"] for n in na])
