#!/bin/sh
# usage: tools/mutant_run.sh <patch.diff | -R:<commit> > <ID> [quick|thorough] [extra check args]
# Runs one check against a scratch copy of /repo carrying the patch (or with a fix commit reverted), then removes the copy.
# The copy lives outside /repo and /verif; VERIF_REPO points the check at it.
set -e
PATCH="$1"; ID="$2"; TIER="${3:-quick}"
case "$PATCH" in -R:*) ;; /*) ;; *) PATCH="$(pwd)/$PATCH" ;; esac
HERE="$(cd "$(dirname "$0")/.." && pwd)"
SCRATCH="$(mktemp -d /var/tmp/frv-mut-XXXXXX)"
trap 'rm -rf "$SCRATCH"' EXIT
git -C /repo archive HEAD | tar -x -C "$SCRATCH"
case "$PATCH" in
  -R:*) git -C /repo show "${PATCH#-R:}" | (cd "$SCRATCH" && patch -R -p1 -s) ;;
  *) (cd "$SCRATCH" && patch -p1 -s < "$PATCH") ;;
esac
shift 3 2>/dev/null || shift $#
cd "$HERE"
VERIF_REPO="$SCRATCH" VERIF_NO_EVIDENCE=1 ./check "$ID" --tier "$TIER" "$@" && rc=0 || rc=$?
echo "mutant_run: exit=$rc"
exit $rc
