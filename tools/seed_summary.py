"""Fold the confirmation line of every /verif/seeded/*/confirm.log into its meta.json and print a table for DESIGN.md."""
import glob
import json
import os
import re

HERE = os.path.dirname(os.path.dirname(os.path.abspath(__file__)))
rows = []
for d in sorted(glob.glob(os.path.join(HERE, "seeded", "*"))):
    log = os.path.join(d, "confirm.log")
    if not os.path.exists(log):
        continue
    last = [l for l in open(log).read().splitlines() if l.startswith("apply=")]
    if not last:
        continue
    line = last[-1]
    m = re.search(r"demo_unchanged_exit=(\d+) demo_changed_exit=(\d+) suite='([^']*)' checks:(.*)", line)
    meta_p = os.path.join(d, "meta.json")
    try:
        meta = json.load(open(meta_p))
    except Exception:
        meta = {}
    checks = m.group(4).split()
    caught = [c for c in checks if c.endswith("exit1")]
    meta["confirmed_by_lead"] = {
        "demo_exit_on_unchanged_code": int(m.group(1)), "demo_exit_with_change": int(m.group(2)), "suite_with_change": m.group(3),
        "checks_run": checks, "caught_by": caught,
        "how": "tools/seed_verify.sh: scratch copy of /repo HEAD (git archive), demo run before and after `patch -p1 < patch.diff`, repository suite with the change, then ./check <ID> with VERIF_REPO pointing at the copy; copy removed afterwards",
    }
    json.dump(meta, open(meta_p, "w"), indent=1)
    rows.append((os.path.basename(d), meta.get("summary", "")[:110].replace("\n", " "), ", ".join(c.replace(":exit1", "") for c in caught) or ("n/a (neutralised by a later fix)" if meta.get("obsolete_on_head") else ("n/a (outside the statement)" if meta.get("out_of_scope") else "MISSED"))))
for r in rows:
    print("| %s | %s | %s |" % r)
