#!/bin/sh
# tools/sweep.sh <tier> "<seeds>" ["<ids>"]  - run checks without touching evidence; print everything that is not 'held'
TIER=${1:-quick}; SEEDS=${2:-"0 1 2"}; IDS=${3:-"C01 C02 C03 C04 C05 C06 C07 C08 C09 C10 C11 C12 C13 C14 C15 C16 C17 C18 C19 C20"}
cd "$(dirname "$0")/.." || exit 2
P=${PAR:-4}; [ "$TIER" = thorough ] && P=${PAR:-1}
for s in $SEEDS; do for id in $IDS; do echo "$id $s"; done; done | xargs -P "$P" -L 1 sh -c 'VERIF_NO_EVIDENCE=1 ./check $0 --tier '"$TIER"' --seed $1 2>&1 | grep -E "^VIOLATION|^INCONCLUSIVE|tier='"$TIER"'" | grep -v ": held" | sed "s/^/[seed $1] /"'
echo "sweep done: tier=$TIER seeds=$SEEDS"
