"""Regenerate the generated tables of DESIGN.md section 8 (between the BEGIN/END GENERATED markers) from
known_findings.json, seeded/*/meta.json, mutants/*/ and evidence/*.json."""
import glob
import json
import os
import re

HERE = os.path.dirname(os.path.dirname(os.path.abspath(__file__)))
kf = json.load(open(os.path.join(HERE, "known_findings.json")))["findings"]
out = []
out.append("#### 8.3.1 Genuine defects repaired in /repo (one unguarded `fix:` commit each; the suite stays at 444 passed)\n")
out.append("| Property | Mechanism key | Commit | What failed |\n|---|---|---|---|")
seen = set()
for e in kf:
    if e["status"] == "fixed":
        out.append("| %s | %s | %s | %s |" % (e["property"], e["key"], e.get("commit", ""), e["what"].replace("|", "/")))
out.append("\n#### 8.3.2 Genuine defects recorded as known findings (reported as `KNOWN-FINDING:` lines, exit 0)\n")
out.append("| Property | Mechanism key | What fails | Why not repaired |\n|---|---|---|---|")
WHY = {
    "ipaddress-int-pack-loses-family": "the integer encoding is part of the frozen wire format (C02)",
    "dynamic-path-decoded-as-list": "the wire form of a dynamic field does not carry the concrete type; changing it breaks the format",
    "lone-surrogate-unserialisable": "accepting or refusing such text both change behaviour users may rely on; msgpack's surrogateescape handler is the format's text rule",
    "compiled-reverse-membership-typematcher": "documented limitation of the compiled engine (container protocol cannot be overridden from the left operand)",
    "compiled-not-in-missing-field": "Python negates __contains__ itself; would need an AST rewrite of compiled selectors",
    "compiled-in-str-bytes-set-missing-field": "str/bytes/set containers reject or hash-compare the sentinel themselves",
    "json-nonfinite-float-tokens": "Python json default; allow_nan=False would refuse the record instead",
    "grouped-own-attribute-shadows-member-field": "repair renames public attributes (.name, .records): API change",
    "stream-close-without-flush-empty": "pinned by the repository's own test (test_recordstream_header)",
    "sqlite-case-insensitive-identifiers": "SQLite semantics",
    "csv-bare-newline-custom-terminator": "CPython < 3.13 csv.writer behaviour reached through a user option",
    "coincident-identifiers-within-one-frame": "limit of the frozen wire format (identifiers resolve per frame)",
}
for e in kf:
    if e["status"] == "known":
        out.append("| %s | %s | %s | %s |" % (e["property"], e["key"], e["what"].replace("|", "/")[:260], WHY.get(e["key"], "")))
out.append("\n#### 8.5.1 Independently written property-breaking changes (`seeded/`) and the checks that catch them\n")
out.append("| Change | What it does (author's summary) | Needs | Caught by |\n|---|---|---|---|")
for d in sorted(glob.glob(os.path.join(HERE, "seeded", "*"))):
    try:
        m = json.load(open(os.path.join(d, "meta.json")))
    except Exception:
        continue
    c = m.get("confirmed_by_lead", {})
    caught = ", ".join(x.replace(":exit1", "").replace(":", " ") for x in c.get("caught_by", [])) or ("n/a: neutralised by a later fix, see meta.json" if m.get("obsolete_on_head") else ("n/a: outside the property's statement (" + str(m.get("out_of_scope"))[:160] + ")" if m.get("out_of_scope") else "**missed**"))
    needs = m.get("needs", "")
    if isinstance(needs, list):
        needs = "; ".join(map(str, needs))
    out.append("| %s | %s | %s | %s |" % (os.path.basename(d), str(m.get("summary", "")).replace("|", "/").replace("\n", " ")[:230], str(needs).replace("|", "/").replace("\n", " ")[:200], caught))
out.append("\n#### 8.5.2 Hand-written mutants per property (`mutants/<ID>/*.diff`, results in `mutants/<ID>/RESULTS.md`)\n")
out.append("| Property | diffs |\n|---|---|")
for d in sorted(glob.glob(os.path.join(HERE, "mutants", "C*"))):
    out.append("| %s | %d |" % (os.path.basename(d), len(glob.glob(os.path.join(d, "*.diff")))))
out.append("\n#### 8.6 Measured cost (last committed evidence run, 16 cores)\n")
out.append("| Property | tier | evaluations | distinct non-trivial | wall s |\n|---|---|---|---|---|")
for f in sorted(glob.glob(os.path.join(HERE, "evidence", "C*.json"))):
    e = json.load(open(f))
    out.append("| %s | %s | %d | %d | %.1f |" % (e["property_id"], e["tier"], e["coverage"]["evaluations"], e["coverage"]["distinct_nontrivial"], e["wall_s"]))
text = "\n".join(out) + "\n"
p = os.path.join(HERE, "DESIGN.md")
s = open(p).read()
b, e = "<!-- BEGIN GENERATED -->\n", "<!-- END GENERATED -->\n"
if b in s:
    s = s[: s.index(b) + len(b)] + text + s[s.index(e):]
    open(p, "w").write(s)
    print("DESIGN.md tables refreshed")
else:
    print(text)
