#!/bin/sh
# vseed.sh <round> <ID> <n> "<checks>"
cd "$(dirname "$0")/.." || exit 2; rm -rf seeded/$2-r$1seed$3
TIERS=quick tools/seed_verify.sh /tmp/seed$1-$2-out/change$3 $2 r$1seed$3 "$4" 2>&1 | tail -1 | sed "s/^/$2-r$1seed$3 /"
