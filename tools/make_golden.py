"""Produce the frozen golden corpus (DESIGN C02): small streams written by the library at the PINNED revision, together
with the canonical observations of the records that were written.  Run once:

    git -C /repo archive 69a5132 | tar -x -C /var/tmp/frv-pinned && VERIF_REPO=/var/tmp/frv-pinned VERIF_FORCE_PATH=1 \
        PYTHONPATH=/verif /venv/bin/python /verif/tools/make_golden.py && rm -rf /var/tmp/frv-pinned

Only sequences whose bytes the independent reference codec decodes to exactly the written observations are kept
(value classes owned by the C01 known findings are excluded by the type filter)."""
import base64
import bz2
import gzip
import io
import json
import os
import sys

repo = os.environ.get("VERIF_REPO")
if repo:
    sys.path.insert(0, repo)
import warnings

warnings.simplefilter("ignore")
import flow.record  # noqa: E402
from flow.record import RecordStreamWriter  # noqa: E402

from verif import gen, observe, refcodec, workload  # noqa: E402

TYPES = [t for t in gen.ALL_FIELD_TYPES if not t.startswith(("net.ipaddress", "net.IPAddress", "dynamic"))]
out = {"made_with": flow.record.__file__, "entries": []}
kept = 0
for i in range(70):
    focus = None
    if i < len(TYPES):
        t = TYPES[i]
        focus = (t, [c for c in gen.classes_for(t) if c not in ("extreme",)][i % max(1, len(gen.classes_for(t)) - 1)])
    recs = workload.build_sequence(1000 + i, thorough=False, focus=focus, types=TYPES, n_records=(i % 6) + 1, small=True)
    obs = [observe.normalise(observe.obs(r)) for r in recs]
    buf = io.BytesIO()
    w = RecordStreamWriter(buf)
    for r in recs:
        w.write(r)
    w.flush()
    data = buf.getvalue()
    w.fp = None
    try:
        dec = refcodec.decode_stream(data)
    except Exception as e:
        print("skip", i, "reference rejects:", e)
        continue
    if [observe.normalise(o) for o in dec.records] != obs:
        print("skip", i, observe.first_diff(obs, [observe.normalise(o) for o in dec.records]))
        continue
    if len(data) > 20000:
        print("skip", i, "too large", len(data))
        continue
    codec = ["plain", "gz", "bz2"][i % 3] if i % 4 == 3 else "plain"
    blob = data if codec == "plain" else (gzip.compress(data, mtime=0) if codec == "gz" else bz2.compress(data))
    out["entries"].append({"id": i, "codec": codec, "bytes_b64": base64.b64encode(blob).decode(), "expected": obs})
    kept += 1
with open(os.path.join(os.path.dirname(__file__), "..", "golden", "corpus.json"), "w") as f:
    json.dump(out, f, separators=(",", ":"))
print("kept", kept, "made with", flow.record.__file__)
