"""Generate unified diffs for hand-written mutants from (file, old, new) replacement lists.

usage: /venv/bin/python tools/mkmutants.py <spec.py>     spec defines MUTANTS = {"C02/name": [(file, old, new), ...], ...}
Each diff is written to /verif/mutants/<ID>/<name>.diff against /repo HEAD (git archive), never touching /repo."""
import difflib
import os
import runpy
import subprocess
import sys

spec = runpy.run_path(sys.argv[1])
out_root = os.path.join(os.path.dirname(os.path.abspath(__file__)), "..", "mutants")
for key, edits in spec["MUTANTS"].items():
    cid, name = key.split("/")
    chunks = []
    by_file = {}
    for f, old, new in edits:
        by_file.setdefault(f, []).append((old, new))
    for f, reps in by_file.items():
        src = subprocess.run(["git", "-C", "/repo", "show", "HEAD:" + f], capture_output=True, text=True, check=True).stdout
        dst = src
        for old, new in reps:
            if dst.count(old) != 1:
                raise SystemExit("%s: pattern occurs %d times in %s: %r" % (key, dst.count(old), f, old[:60]))
            dst = dst.replace(old, new)
        chunks.append("".join(difflib.unified_diff(src.splitlines(True), dst.splitlines(True), "a/" + f, "b/" + f)))
    os.makedirs(os.path.join(out_root, cid), exist_ok=True)
    with open(os.path.join(out_root, cid, name + ".diff"), "w") as fh:
        fh.write("".join(chunks))
    print("wrote", key)
