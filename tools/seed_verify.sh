#!/bin/sh
# usage: tools/seed_verify.sh <dir with patch.diff demo.py meta.json> <PROP> <name> [check ids...]
# Confirms an independently written property-breaking change (suite still green, demo passes without / fails with the
# change) on a scratch copy of /repo HEAD, runs the given checks (default: PROP) against it, and files it under
# /verif/seeded/<PROP>-<name>/ with what was run.  Nothing is applied to /repo itself.
SRC="$1"; PROP="$2"; NAME="$3"; shift 3
CHECKS="${*:-$PROP}"
HERE="$(cd "$(dirname "$0")/.." && pwd)"
SCRATCH="$(mktemp -d /var/tmp/frv-seed-XXXXXX)"
trap 'rm -rf "$SCRATCH"' EXIT
git -C /repo archive HEAD | tar -x -C "$SCRATCH"
OUT="$HERE/seeded/$PROP-$NAME"; mkdir -p "$OUT"
cp "$SRC/patch.diff" "$OUT/patch.diff"; cp "$SRC/demo.py" "$OUT/demo.py"; cp "$SRC/meta.json" "$OUT/meta.json" 2>/dev/null
LOG="$OUT/confirm.log"; : > "$LOG"
run_demo() { (cd "$SCRATCH" && PYTHONPATH="$SCRATCH" timeout 300 /venv/bin/python "$OUT/demo.py" >>"$LOG" 2>&1); echo $?; }
echo "## demo on unchanged code" >>"$LOG"; D0=$(run_demo)
if ! (cd "$SCRATCH" && git apply --check "$OUT/patch.diff" 2>/dev/null || patch -p1 --dry-run -s < "$OUT/patch.diff" >/dev/null 2>&1); then echo "PATCH DOES NOT APPLY to HEAD" | tee -a "$LOG"; APPLY=fail; else APPLY=ok; fi
(cd "$SCRATCH" && patch -p1 -s < "$OUT/patch.diff" >>"$LOG" 2>&1)
echo "## suite with the change" >>"$LOG"
SUITE=$(cd "$SCRATCH" && PYTHONPATH="$SCRATCH" /venv/bin/python -m pytest -q -p no:cacheprovider --timeout=900 tests 2>&1 | tail -1); echo "$SUITE" >>"$LOG"
echo "## demo with the change" >>"$LOG"; D1=$(run_demo)
RES=""
for C in $CHECKS; do
  for TIER in ${TIERS:-quick thorough}; do
    echo "## check $C $TIER against the change" >>"$LOG"
    (cd "$HERE" && VERIF_REPO="$SCRATCH" VERIF_NO_EVIDENCE=1 timeout 3000 ./check "$C" --tier "$TIER" >"$OUT/check-$C-$TIER.log" 2>&1); RC=$?
    grep -E "^VIOLATION|^$C |^INCONCLUSIVE" "$OUT/check-$C-$TIER.log" | cut -c1-300 >>"$LOG"
    RES="$RES $C:$TIER:exit$RC"
    [ "$RC" = "1" ] && break
  done
done
echo "apply=$APPLY demo_unchanged_exit=$D0 demo_changed_exit=$D1 suite='$SUITE' checks:$RES" | tee -a "$LOG"
