import warnings, os, tempfile, io, subprocess
warnings.simplefilter("ignore")
from flow.record import RecordDescriptor, RecordWriter, RecordReader
d = tempfile.mkdtemp(); os.chdir(d)
A = RecordDescriptor("t/a", [("string","s")])
for uri in ["s.records","s.records.gz","s.records.bz2","s.records.lz4","s.records.zst","a.avro","avro://a2.avro.gz","avro://a3.avro.bz2","avro://a4.avro.lz4","avro://a5.avro.zst"]:
    with RecordWriter(uri) as w:
        for i in range(3): w.write(A(s=str(i)))
    p = uri.split("://")[-1]
    res = {}
    for how, fn in [("fileio", lambda: RecordReader(fileobj=io.FileIO(p))), ("buffered", lambda: RecordReader(fileobj=open(p,"rb"))), ("neutral+scheme", None)]:
        try:
            if how=="neutral+scheme":
                import shutil; shutil.copy(p, "neutral.bin")
                rd = RecordReader(("avro://" if "avro" in uri or p.startswith("a") else "stream://")+"neutral.bin")
            else: rd = fn()
            res[how] = (type(rd).__name__, [r.s for r in rd])
        except Exception as e: res[how] = f"ERR {type(e).__name__}: {str(e)[:60]}"
    pr = subprocess.run(["/venv/bin/rdump","-w","-"], input=open(p,"rb").read(), capture_output=True)
    n = len(list(RecordReader(fileobj=io.BytesIO(pr.stdout)))) if pr.stdout else pr.stderr[-80:]
    print(uri, open(p,"rb").read(4), res, "stdin->", n)
