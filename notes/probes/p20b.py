import warnings, os, tempfile, csv, io
warnings.simplefilter("ignore")
from flow.record import RecordDescriptor, RecordWriter, RecordReader
d = tempfile.mkdtemp(); os.chdir(d)
A = RecordDescriptor("t/a", [("string","s"),("varint","v")])
vals = ['plain', 'a,b', 'q"uote', "line\nbreak", "cr\rreturn", "crlf\r\nx", "tab\there", "semi;colon", "unié中", "nul\x00x", " lead", "", None, "'single'", "=1+1", "a|b", "\r", "\n", '"', '""', ",", "a\\b"]
for lt in [None, r"\n", r"\r\n", r"\r", r"\t", "|"]:
    uri = "csvfile://o.csv" + (f"?lineterminator={lt}" if lt else "")
    with RecordWriter(uri) as w:
        for v in vals: w.write(A(s=v, v=1))
    raw = open("o.csv", newline="").read()
    rows = list(csv.reader(io.StringIO(raw, newline="")))
    got = [r[0] for r in rows[1:] if r]
    exp = ["" if v is None else v for v in vals]
    print(repr(lt), "stdparse ok" if got==exp else f"DIFF n={len(got)}/{len(exp)} {[(g,e) for g,e in zip(got,exp) if g!=e][:3]}")
