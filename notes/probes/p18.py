import warnings, os, tempfile, datetime as dt, sqlite3
warnings.simplefilter("ignore")
from flow.record import RecordDescriptor, RecordWriter, RecordReader
d = tempfile.mkdtemp()
A = RecordDescriptor("t/a", [("string","s"),("varint","v"),("float","f"),("bytes","b"),("datetime","d"),("boolean","bo"),("uint16","u"),("path","p"),("net.ipaddress","ip"),("string[]","l"),("digest","dg")])
B = RecordDescriptor("t/a", [("string","s"),("varint","extra")])
C = RecordDescriptor("select", [("string","from"),("string","where"),("string","Order")])
p = os.path.join(d,"x.db")
w = RecordWriter("sqlite://"+p+"?batch_size=3")
con = sqlite3.connect(p)
def vis():
    try: return {t: con.execute(f'select count(*) from "{t}"').fetchone()[0] for (t,) in con.execute("select name from sqlite_master where type='table'")}
    except Exception as e: return repr(e)
recs = [A(s="x\x00y", v=2**63-1, f=1.5, b=b"\x00\xff", d=dt.datetime(2020,1,1,tzinfo=dt.timezone(dt.timedelta(hours=2))), bo=True, u=5, p="/a", ip="::1", l=["a"], dg=("d41d8cd98f00b204e9800998ecf8427e",None,None)),
        A(s="", v=-2**63, f=float("inf"), b=b"", d=dt.datetime(1,1,1)), A(), A(s="4"), B(s="5", extra=7), A(s="6"), C(**{"from":"a","where":"b","Order":"c"}), A(s="8"), A(s="9"), A(s="10")]
for i,r in enumerate(recs):
    w.write(r); print(i, vis())
w.close(); print("closed", vis())
for r in RecordReader("sqlite://"+p): print(r)
for bad in [A(v=2**63), A(s="a\udcff"), A(f=float("nan"))]:
    p2 = os.path.join(d,"y.db"); 
    try:
        w = RecordWriter("sqlite://"+p2); w.write(bad); w.close(); print("ok", [ (r.v, r.s, r.f) for r in RecordReader("sqlite://"+p2)]); os.unlink(p2)
    except Exception as e: print("bad ERR", type(e).__name__, e); os.unlink(p2)
# case collision
p3 = os.path.join(d,"z.db"); w = RecordWriter("sqlite://"+p3)
X = RecordDescriptor("t/x", [("string","a")]); Y = RecordDescriptor("t/X", [("string","a")]); Z = RecordDescriptor("t/z", [("string","a"),("string","A")])
try:
    w.write(X(a="1")); w.write(Y(a="2")); w.close(); print([ (r._desc.name, r.a) for r in RecordReader("sqlite://"+p3)])
    w = RecordWriter("sqlite://"+p3); w.write(Z(a="1", A="2")); w.close()
except Exception as e: print("case ERR", type(e).__name__, e)
