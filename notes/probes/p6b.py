import warnings
warnings.simplefilter("ignore")
from flow.record import RecordDescriptor
for name, fields in [("a",[("string","class"),("string","x\n")]), ("a",[("string","RECORD_VERSION")]), ("a\n",[("string","class")])]:
    try:
        d = RecordDescriptor(name, fields); print("ACCEPT", d.recordType.__slots__)
        r = d(**{fields[-1][1]:"5"}); print(r, r._version, r._pack())
    except BaseException as e: print("REJECT", type(e).__name__, e)
