import io, warnings, gzip, zlib, struct, collections
warnings.simplefilter("ignore")
from flow.record import RecordDescriptor, RecordStreamWriter, RecordStreamReader, RecordReader
C = RecordDescriptor("t/n", [("string","a"),("varint","v")]); D = RecordDescriptor("t/m", [("bytes","z"),("string[]","l")])
recs = [C(a="x"*i, v=i) if i%2 else D(z=b"\x00"*i, l=["q"]*i) for i in range(8)]
b = io.BytesIO(); w = RecordStreamWriter(b)
bounds=[]
for r in recs:
    w.write(r); bounds.append(len(b.getvalue()))
data = b.getvalue()
print(len(data), bounds)
res = collections.Counter()
for cut in range(len(data)+1):
    got=[]; end="ok"
    try:
        rd = RecordStreamReader(io.BytesIO(data[:cut]))
        for r in rd: got.append(r)
    except Exception as e:
        end = type(e).__name__
    expect = sum(1 for x in bounds if x<=cut)
    ok = (len(got)==expect and all(g==r for g,r in zip(got,recs)))
    res[(end, ok)] += 1
    if not ok: print("MISMATCH", cut, len(got), expect, end)
print(res)
# gzip
gz = gzip.compress(data)
print("gz len", len(gz))
res = collections.Counter()
for cut in range(len(gz)+1):
    got=[]; end="ok"
    try:
        rd = RecordReader(fileobj=io.BytesIO(gz[:cut]))
        for r in rd: got.append(r)
    except Exception as e:
        end = type(e).__name__
    # independent decodable prefix
    dobj = zlib.decompressobj(31)
    try: pre = dobj.decompress(gz[:cut])
    except Exception as e: pre=b""
    expect_lb = sum(1 for x in bounds if x<=len(pre))
    prefix_ok = all(g==r for g,r in zip(got,recs)) and len(got)<=len(recs)
    res[(end, prefix_ok, len(got)==expect_lb, len(got)>expect_lb)] += 1
print(res)
