import warnings, datetime as dt
warnings.simplefilter("ignore")
from flow.record import RecordDescriptor, GroupedRecord
from flow.record.selector import Selector
D = RecordDescriptor("t/d", [("digest","d"),("string","s")])
r = D(d=("d41d8cd98f00b204e9800998ecf8427e",None,None), s="abc")
try: r.d.md5 = "aabb"
except Exception as e: print("raised", type(e).__name__, e)
print("after failed set:", r.d.md5)
for e in ["__class__", "__class__ == 1", "__dict__", "__doc__ == None", "__import__", "r.s == __name__"]:
    try: print(e, "->", repr(Selector(e).match(r))[:80])
    except Exception as x: print(e, "-> ERR", type(x).__name__, str(x)[:60])
A = RecordDescriptor("t/a", [("string","x")]); B = RecordDescriptor("t/b", [("string","y")])
a = A(x="1", _source="SA", _generated=dt.datetime(2020,1,1)); b = B(y="2", _source="SB", _generated=dt.datetime(2021,1,1))
g = GroupedRecord("t/g",[a,b]); g2 = g._replace(x="new")
print([ (m._source, m._generated.year) for m in g2.records], [(m._source, m._generated.year) for m in g.records])
