import warnings, itertools
warnings.simplefilter("ignore")
from flow.record import RecordDescriptor
from flow.record.selector import Selector, CompiledSelector
R = RecordDescriptor("t/r", [("varint","n"),("string","s"),("string[]","l"),("net.ipaddress","ip"),("bytes","by"),("datetime","d")])
r = R(n=100, s="Hello", l=["a","b"], ip="10.0.0.1", by=b"ab", d="2020-01-01")
import collections
res = collections.defaultdict(list)
others = ["1", "'x'", "b'x'", "1.5", "None", "True", "[1]", "(1,)", "[]", "r.n", "r.s", "r.l", "r.ip", "r.by", "r.d", "r.zz2", "net.ipnetwork('10.0.0.0/8')", "names(r)", "Type.string"]
ops = ["==","!=","<",">","<=",">=","in","not in", "is", "is not"]
for op in ops:
  for o in others:
    for e in (f"r.zz {op} {o}", f"{o} {op} r.zz"):
      for ctx in ("{}", "not ({})", "({}) and True", "({}) or False"):
        ee = ctx.format(e)
        out=[]
        for cls in (Selector, CompiledSelector):
            try: out.append(repr(bool(cls(ee).match(r))))
            except BaseException as ex: out.append(type(ex).__name__)
        if ctx=="{}":
            res[(op, tuple(out))].append(e)
for k,v in sorted(res.items()): print(k, len(v), v[:6])
