import warnings, os, tempfile, random, collections, datetime as dt, io, sys
warnings.simplefilter("ignore")
sys.path.insert(0, __import__("os").path.dirname(__import__("os").path.abspath(__file__)))
from obsmod import orec, oval
from flow.record import RecordDescriptor, RecordWriter, RecordReader, RecordStreamWriter, RecordStreamReader
rng = random.Random(7)
pools = {
 "string": ["", "x", "a\udcffb", "é中😀", "a\x00b", "x"*31, "x"*32, "x"*255, "x"*256, "x"*65536, "line\nbreak", None],
 "wstring": ["w", None], "uri": ["http://x/y?z#f", "", None],
 "varint": [0, 1, -1, 127, 128, -32, -33, 255, 256, 65535, 65536, 2**31-1, 2**31, 2**32-1, 2**32, 2**63-1, 2**63, 2**64-1, 2**64, -2**63, -2**63-1, 10**40, -10**40, None],
 "filesize": [0, 2**40, None], "unix_file_mode": [0o755, None], "uint16": [0, 65535, None], "uint32": [0, 2**32-1, None],
 "float": [0.0, -0.0, 1.5, float("inf"), float("-inf"), 5e-324, 1e308, None],
 "boolean": [True, False, None],
 "bytes": [b"", b"\x00", b"\xff"*31, b"\xff"*32, b"a"*256, b"a"*65536, None],
 "datetime": [dt.datetime(2020,1,1), dt.datetime(1,1,1), dt.datetime(9999,12,31,23,59,59,999999), dt.datetime(1969,12,31,23,59,59,999999), dt.datetime(2020,1,1,tzinfo=dt.timezone(dt.timedelta(hours=5,minutes=30,seconds=15))), dt.datetime(2020,1,1,tzinfo=dt.timezone(dt.timedelta(hours=-11))), None],
 "net.ipaddress": ["1.2.3.4", "0.0.0.0", "255.255.255.255", "fe80::1", "::1:0:0", "ffff:ffff:ffff:ffff:ffff:ffff:ffff:ffff", None],
 "net.ipnetwork": ["10.0.0.0/8", "0.0.0.0/0", "::/0", "fe80::/10", "1.2.3.4/32", None],
 "path": ["/a/b", "", ".", "rel/x", "//unc/x", None], 
 "digest": [("d41d8cd98f00b204e9800998ecf8427e", None, None), (None, "da39a3ee5e6b4b0d3255bfef95601890afd80709", None), ("d41d8cd98f00b204e9800998ecf8427e","da39a3ee5e6b4b0d3255bfef95601890afd80709","e3b0c44298fc1c149afbf4c8996fb92427ae41e4649b934ca495991b7852b855"), None],
}
stream_only = {"command": ["ls -l /tmp", "C:\\x.exe /a", None], "dynamic": ["x", 5, True, b"b", dt.datetime(2020,1,1), ["a","b"], None], "stringlist": [["a","b"], [], None], "dictlist": [[{"a":1,"b":"x"}], None]}
from flow.record import fieldtypes
winpaths = [fieldtypes.path.from_windows("C:\\a\\b"), fieldtypes.path.from_windows("a/b")]
d = tempfile.mkdtemp()
def run(fmt, pools, lists=True):
    diffs=collections.Counter(); n=0; ex={}
    for t, vals in pools.items():
        for suffix in (["","[]"] if lists and t not in ("dynamic","stringlist","dictlist") else [""]):
            for v in vals + (winpaths if t=="path" and fmt=="stream" else []):
                val = v if not suffix else ([v, v] if v is not None else [])
                D = RecordDescriptor("t/j", [(t+suffix,"f"),("string","tail")])
                r = D(f=val, tail="t", _generated=dt.datetime(2020,1,1))
                before = orec(r)
                try:
                    if fmt=="stream":
                        b=io.BytesIO(); w=RecordStreamWriter(b); w.write(r); out=list(RecordStreamReader(io.BytesIO(b.getvalue())))
                    else:
                        p=os.path.join(d,"x."+fmt); 
                        with RecordWriter(p) as w: w.write(r)
                        out=list(RecordReader(p))
                    after = orec(out[0]); n+=1
                    if after != before or orec(r)!=before:
                        k=(t+suffix,); diffs[k]+=1; ex.setdefault(k,(repr(val)[:40], [x for x,y in zip(before[3],after[3]) if x!=y][:1], [y for x,y in zip(before[3],after[3]) if x!=y][:1]))
                except Exception as e:
                    k=(t+suffix,"ERR "+type(e).__name__); diffs[k]+=1; ex.setdefault(k,(repr(val)[:40], str(e)[:60]))
    print(fmt, "cases", n, "diff classes:"); 
    for k,c in diffs.items(): print("   ", k, c, str(ex[k])[:300])
run("stream", {**pools, **stream_only})
run("json", pools)
