import warnings, os, tempfile, random, collections, io, sys, logging, shutil, datetime as dt
warnings.simplefilter("ignore")
from flow.record import RecordDescriptor, RecordWriter, RecordReader
from flow.record.tools import rdump
logging.disable(logging.CRITICAL)
sys.path.insert(0, __import__("os").path.dirname(__import__("os").path.abspath(__file__)))
from refsel import ref_match, Undefined, Unsupported, mkns, ev
import ast
rng = random.Random(5)
A = RecordDescriptor("t/a", [("string","s"),("varint","v"),("datetime","ts"),("datetime","mtime")])
B = RecordDescriptor("t/b", [("varint","v"),("string","other"),("string[]","l")])
C = RecordDescriptor("t/c", [("datetime","created"),("string","s")])
G = dt.datetime(2020,1,1,tzinfo=dt.timezone.utc)
def mkrec(i):
    k = rng.randrange(3)
    if k==0: return A(s=rng.choice(["x","y","hello"]), v=rng.randrange(10), ts=dt.datetime(2020,1,1+rng.randrange(20)), mtime=rng.choice([None, dt.datetime(2021,1,1)]), _generated=G, _source=rng.choice([None,"orig"]))
    if k==1: return B(v=rng.randrange(10), other=rng.choice(["o","p"]), l=rng.sample(["a","b","c"], rng.randrange(3)), _generated=G)
    return C(created=dt.datetime(2019,1,1+rng.randrange(20)), s=rng.choice(["x","z"]), _generated=G)
def obs(r): return (r._desc.name, tuple(r._desc.get_field_tuples()), tuple((k, repr(getattr(r,k))) for k in r.__slots__))
def expected(srcs, opt):
    recs=[]
    for kind, rs, cutn in srcs:
        if kind=="good": recs += rs
        elif kind=="trunc": recs += rs[:cutn]
    out=[]
    if opt.get("sel"):
        keep=[]
        for r in recs:
            try: m = ref_match(opt["sel"], r)
            except Undefined: 
                # missing field semantics -> comparison false; prototype: treat whole expr false if field missing
                return None
            if m: keep.append(r)
        recs=keep
    skip=opt.get("skip",0); cnt=opt.get("count")
    recs = recs[skip: skip+cnt] if cnt else recs[skip:]
    res=[]
    for r in recs:
        d = {k:getattr(r,k) for k in r.__slots__}
        if opt.get("src") is not None: d["_source"]=opt["src"]
        if opt.get("cls") is not None: d["_classification"]=opt["cls"]
        ft = list(r._desc.get_field_tuples())
        F=opt.get("F"); X=opt.get("X") or []
        if F: ft2=[(t,n) for fn in F for (t,n) in ft if n==fn and fn not in X]
        else: ft2=[(t,n) for (t,n) in ft if n not in X]
        if F or X:
            # rewriter keeps reserved fields
            pass
        res.append((r._desc.name, tuple(ft2), tuple((n, repr(d[n])) for _,n in ft2) + tuple((k, repr(d[k])) for k in ("_source","_classification","_generated","_version"))))
    return res
stats=collections.Counter(); shown=0
base = tempfile.mkdtemp()
for case in range(300):
    d = os.path.join(base, str(case)); os.mkdir(d)
    srcs=[]; argv=[]
    for si in range(rng.randint(1,4)):
        kind = rng.choice(["good","good","good","missing","garbage","empty","trunc"])
        p = os.path.join(d, f"s{si}.records" + rng.choice(["",".gz"]) )
        rs=[mkrec(i) for i in range(rng.randint(0,6))]
        cutn=None
        if kind in ("good","trunc"):
            if kind=="trunc": p = os.path.join(d, f"s{si}.records")
            w = RecordWriter(p); offs=[]
            for r in rs: w.write(r); w.flush(); offs.append(os.path.getsize(p)) if not p.endswith(".gz") else None
            w.flush(); w.close()
            if kind=="trunc":
                data=open(p,"rb").read()
                cut = rng.randrange(len(data)+1); open(p,"wb").write(data[:cut])
                cutn = sum(1 for o in offs if o<=cut)
        elif kind=="garbage": open(p,"wb").write(os.urandom(50))
        elif kind=="empty": open(p,"wb").write(b"")
        srcs.append((kind, rs, cutn)); argv.append(p)
    opt={}
    if rng.random()<.5: opt["skip"]=rng.randrange(0,8); argv += ["--skip", str(opt["skip"])]
    if rng.random()<.5: opt["count"]=rng.randrange(1,8); argv += ["-c", str(opt["count"])]
    if rng.random()<.4: opt["sel"]=rng.choice(["r.v > 3", "r.v in [1,2,3] or r.v == 9", "r.v % 2 == 0 and r.v < 8"]); argv += ["-s", opt["sel"]] + (["-n"] if rng.random()<.5 else [])
    if rng.random()<.3: opt["F"]=rng.sample(["v","s","other","nope","ts"], rng.randint(1,3)); argv += ["-F", ",".join(opt["F"])]
    if rng.random()<.3: opt["X"]=rng.sample(["v","s","l","mtime"], rng.randint(1,2)); argv += ["-X", ",".join(opt["X"])]
    if rng.random()<.3: opt["src"]="SRC"; argv += ["--record-source","SRC"]
    if rng.random()<.2: opt["cls"]="TLP"; argv += ["--record-classification","TLP"]
    out = os.path.join(d, "out.records"); argv += ["-w", out]
    exp = expected(srcs, opt)
    try:
        rc = rdump.main(argv)
        got = [obs(r) for r in RecordReader(out)]
    except BaseException as e:
        got = f"ERR {type(e).__name__}: {e}"
    if exp is None: stats["undefined"]+=1
    elif got == exp: stats["agree"]+=1
    else:
        stats["DIFF"]+=1
        if shown<6:
            shown+=1; print("ARGV", [a.replace(d,'') for a in argv]); print(" kinds", [(k,len(rs),c) for k,rs,c in srcs]); print(" exp", len(exp) if exp else exp, (exp or [None])[:1]); print(" got", len(got) if isinstance(got,list) else got, (got if isinstance(got,list) else [None])[:1])
print(stats)
shutil.rmtree(base)
