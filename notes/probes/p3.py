import io, warnings, gzip, zlib
warnings.simplefilter("ignore")
from flow.record import RecordDescriptor, RecordStreamWriter, RecordStreamReader, GroupedRecord, RecordReader, RecordWriter
# C03 collision
A = RecordDescriptor("t/c", [("stringlist","a"),("string","b")])
B = RecordDescriptor("t/c", [("string","a"),("string","listb")])
print("ids", A.identifier, B.identifier, A==B)
b = io.BytesIO(); w = RecordStreamWriter(b)
w.write(A(a=["x"], b="y")); 
try:
    w.write(B(a="p", listb="q"))
    out = list(RecordStreamReader(io.BytesIO(b.getvalue())))
    for r in out: print(r, r._desc.get_field_tuples())
except Exception as e: print("ERR", type(e), e)
# same name diff fields
C = RecordDescriptor("t/n", [("string","a")]); D = RecordDescriptor("t/n", [("varint","z"),("string","a")])
b = io.BytesIO(); w = RecordStreamWriter(b)
for r in [C(a="1"), D(z=1,a="2"), C(a="3"), D(z=4,a="5")]: w.write(r)
for r in RecordStreamReader(io.BytesIO(b.getvalue())): print(r, r._desc.get_field_tuples())
# nested only
N = RecordDescriptor("t/inner", [("string","i")]); H = RecordDescriptor("t/holder", [("record","r"),("record[]","rs")])
N2 = RecordDescriptor("t/inner2", [("string","j")])
b = io.BytesIO(); w = RecordStreamWriter(b)
w.write(H(r=N(i="a"), rs=[N2(j="b"), N(i="c")]))
g = GroupedRecord("t/grp", [N(i="g"), N2(j="h")])
w.write(g)
out = list(RecordStreamReader(io.BytesIO(b.getvalue())))
print(out)
print(type(out[0].rs), out[0].rs)
# two writers
b1=io.BytesIO(); b2=io.BytesIO(); w1=RecordStreamWriter(b1); w2=RecordStreamWriter(b2)
w1.write(C(a="1")); w2.write(C(a="2"))
print(list(RecordStreamReader(io.BytesIO(b2.getvalue()))))
# JSON
from flow.record.adapter.jsonfile import JsonfileWriter, JsonfileReader
import tempfile, os
d = tempfile.mkdtemp()
p = os.path.join(d,"x.json")
w = JsonfileWriter(p)
for r in [C(a="1"), D(z=1,a="2"), C(a="3"), A(a=["x"], b="y"), B(a="p", listb="q")]: w.write(r)
w.close()
print(open(p).read())
try:
    for r in JsonfileReader(p): print(r, r._desc.get_field_tuples())
except Exception as e: print("ERR", type(e), e)
# nested in json
p2 = os.path.join(d,"y.json")
w = JsonfileWriter(p2)
try:
    w.write(H(r=N(i="a"), rs=[N2(j="b")])); w.close()
    print(open(p2).read())
    for r in JsonfileReader(p2): print(r, type(r.r))
except Exception as e: print("ERR", type(e), e)
