import warnings, re, keyword, random, collections, ast, io, json, os, sys
warnings.simplefilter("ignore")
from flow.record import RecordDescriptor
import flow.record.base as base
from flow.record.whitelist import WHITELIST
cap=[]; _exec=exec
def spy(code,g=None,l=None): cap.append(code); return _exec(code,g,l)
base.exec = spy
trip = __import__("os").path.join(__import__("tempfile").gettempdir(), "frv-probe-TRIPWIRE")
if os.path.exists(trip): os.unlink(trip)
IDENT = re.compile(r"[A-Za-z][A-Za-z0-9_]*\Z")
def ref_name_ok(n): return isinstance(n,str) and bool(n) and all(IDENT.match(p) for p in n.split("/"))
def ref_field_ok(n): return bool(IDENT.match(n)) and n not in ("_source","_classification","_generated","_version")
def ref_type_ok(t):
    if t.endswith("[]"): t=t[:-2]
    return t in WHITELIST
rng = random.Random(3)
payload = f"__import__('os').system('touch {trip}')"
hostile = ["", " ", "a ", " a", "a\n", "a\r", "a\t", "a\x00", "a\nb", "1a", "_a", "__a", "a-b", "a.b", "a/b", "é", "ａ", "a１", "á", "class", "None", "x=1", "x=1,y", "x):\n    pass\n#", "x\n"+payload, payload, "a;"+payload, "a=("+payload+")", "*a", "**a", "a:int", "a b", "a,b", "a'", 'a"', "a\\", "a)", "a]", "a}", "lambda", "a"*5000, "Record", "args", "kwargs", "__self", "_field_x", "self", "k", "v", "f", "values", "dict", "setattr"]
names = ["t", "a/b", "a/b/c", "A1_/b2"] + ["t/"+h for h in hostile] + hostile + [h+"/t" for h in hostile[:20]]
stats = collections.Counter(); bad=[]
def try_def(name, fields, how):
    n0=len(cap)
    exp = ref_name_ok(name) and all(ref_field_ok(f) and ref_type_ok(t) for t,f in fields) 
    try:
        d = RecordDescriptor(name, fields); got=True
        slots = d.recordType.__slots__
    except BaseException as e: got=False; err=type(e).__name__
    stats[(how, exp, got)] += 1
    if exp != got: bad.append((how, name[:40], fields[:2], exp, got))
    if got and exp:
        want = tuple(dict.fromkeys(f for _,f in fields)) + ("_source","_classification","_generated","_version")
        if slots != want: bad.append(("SLOTS", name, fields, slots))
    for src in cap[n0:]:
        try: ast.parse(src)
        except SyntaxError: stats["exec_src_not_compilable"]+=1; continue
        stats["exec_src_compilable"]+=1
for n in names: try_def(n, [("string","x")], "name")
for h in hostile + ["x","x1","Xy_z"]:
    try_def("t/n%d"%rng.randrange(10**9), [("string",h)], "field")
    try_def("t/n%d"%rng.randrange(10**9), [("string","class"),("string",h)], "field+kw")
for t in ["string","string[]","string[][]","[]","net","net.ipv4","net.ipv4.Address","os.system","credential.username","net.hostname","string\n","String"," string","typedlist","FieldType","record","record[]","dynamic[]","net.ipaddress[]","flow.record.fieldtypes.string","..string","net..ipaddress", payload]:
    try_def("t/n%d"%rng.randrange(10**9), [(t,"x")], "type")
for k,v in sorted(stats.items(), key=str): print(k,v)
print("MISMATCHES:"); 
for b in bad: print("  ", b)
print("tripwire exists:", os.path.exists(trip))
