import warnings, os, tempfile, csv, io, datetime as dt, sys, collections
warnings.simplefilter("ignore")
from flow.record import RecordDescriptor, RecordWriter, fieldtypes
d = tempfile.mkdtemp(); os.chdir(d)
vals = {"string":"a,b\"c","varint":10**30,"float":1.5,"boolean":True,"uint16":5,"bytes":b"\x00\xff","datetime":dt.datetime(2020,1,1,12,tzinfo=dt.timezone(dt.timedelta(hours=2))),"net.ipaddress":"::1","net.ipnetwork":"10.0.0.0/8",
 "path":"/a/b","command":"ls -l 'a b'","digest":("d41d8cd98f00b204e9800998ecf8427e",None,None),"uri":"http://x/y","filesize":12345,"unix_file_mode":0o644,"dynamic":["a",1],"stringlist":["a","b"],"dictlist":[{"a":1}],"string[]":["x","y,z"],"datetime[]":[dt.datetime(2020,1,1)],"path[]":["/a"],"float[]":[1.5, float("nan")]}
fields = [(t, "f%d"%i) for i,t in enumerate(vals)]
D = RecordDescriptor("t/all", fields)
r = D(**{f: vals[t] for (t,f) in fields}, _generated=dt.datetime(2020,1,1))
r2 = D(_generated=dt.datetime(2020,1,1))
with RecordWriter("csvfile://o.csv") as w: w.write(r); w.write(r2)
rows = list(csv.reader(io.StringIO(open("o.csv", newline="").read(), newline="")))
names = list(r.__slots__)
print("header ok", rows[0]==names, "nrows", len(rows))
for row, rec in zip(rows[1:], [r, r2]):
    exp = ["" if getattr(rec,k) is None else str(getattr(rec,k)) for k in names]
    bad = [(k,a,b) for k,a,b in zip(names,row,exp) if a!=b]
    print("csv diffs:", bad)
for verbose in (False, True):
    uri = "line://o.line" + ("?verbose=true" if verbose else "")
    with RecordWriter(uri) as w: w.write(r); w.write(r2)
    raw = open("o.line","rb").read().decode(errors="surrogateescape")
    types = {k: f.typename for k,f in D.get_all_fields().items()}
    def model(rec, n):
        keys = [f"{k} ({types[k]})" if verbose else k for k in names]
        width = max(len(k) for k in keys)
        out = f"--[ RECORD {n} ]--\n"
        for k, kk in zip(names, keys): out += "{:>{w}} = {}\n".format(kk, getattr(rec,k), w=width)
        return out
    exp = model(r,1)+model(r2,2)
    print("line verbose", verbose, "equal", raw==exp)
    if raw!=exp:
        for a,b in zip(raw.splitlines(), exp.splitlines()):
            if a!=b: print("   ", repr(a), "|", repr(b)); break
with RecordWriter("text://o.txt") as w: w.write(r); w.write(r2)
print("text equal", open("o.txt","rb").read().decode(errors="surrogateescape") == repr(r)+"\n"+repr(r2)+"\n")
