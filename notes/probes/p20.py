import warnings, os, tempfile, csv, io, datetime as dt
warnings.simplefilter("ignore")
from flow.record import RecordDescriptor, RecordWriter, RecordReader
d = tempfile.mkdtemp(); os.chdir(d)
A = RecordDescriptor("t/a", [("string","s"),("varint","v"),("string[]","l"),("bytes","b"),("path","p")])
vals = ['plain', 'a,b', 'q"uote', "line\nbreak", "cr\rreturn", "crlf\r\nx", "tab\there", "semi;colon", "unié中", "sur\udcff", "nul\x00x", " lead", "", None, "'single'", "=1+1", "a|b"]
for lt in [None, r"\n", r"\r\n", r"\r"]:
    p = "o.csv"
    try:
        uri = "csvfile://o.csv" + (f"?lineterminator={lt}" if lt else "")
        with RecordWriter(uri) as w:
            for v in vals: w.write(A(s=v, v=1, l=[v] if v else [], b=b"x", p=v))
        raw = open(p, newline="", encoding="utf-8", errors="surrogateescape").read()
        rows = list(csv.reader(io.StringIO(raw, newline="")))
        got = [r[0] for r in rows[1:]]
        exp = ["" if v is None else v for v in vals]
        print(lt, "stdparse ok" if got==exp else f"stdparse DIFF {[(g,e) for g,e in zip(got,exp) if g!=e][:4]} n={len(got)}/{len(exp)}")
        try:
            back = [r.s for r in RecordReader(p)]
            print("  reader", "ok" if back==exp else f"DIFF {[(g,e) for g,e in zip(back,exp) if g!=e][:4]} n={len(back)}")
        except Exception as e: print("  reader ERR", type(e).__name__, e)
    except Exception as e: print(lt, "WERR", type(e).__name__, str(e)[:100])
vals2 = [v for v in vals if v is None or "\udcff" not in v]
with RecordWriter("csvfile://o2.csv") as w:
    for v in vals2: w.write(A(s=v, v=1))
raw = open("o2.csv", newline="").read(); rows = list(csv.reader(io.StringIO(raw, newline=""))); print([r[0] for r in rows[1:]]==["" if v is None else v for v in vals2])
try: print([r.s for r in RecordReader("o2.csv")]==["" if v is None else v for v in vals2])
except Exception as e: print("reader ERR", type(e).__name__, e)
# line & text
for uri in ["line://o.line", "line://o.linev?verbose=true", "text://o.txt", "text://o.fmt?format_spec={s}|{v}|{nope}"]:
    try:
        with RecordWriter(uri) as w:
            for v in ["x", "sur\udcff", "a\nb", None]: w.write(A(s=v, v=1, l=["q"], b=b"\xff", p="/p"))
        print(uri); print(open(uri.split("//")[1].split("?")[0],"rb").read()[:600])
    except Exception as e: print(uri, "ERR", type(e).__name__, e)
T = RecordDescriptor("t/t", [("datetime","d")])
try:
    with RecordWriter("text://o.t2") as w: w.write(T(d=dt.datetime(1,1,1,tzinfo=dt.timezone(dt.timedelta(hours=14)))))
except Exception as e: print("text dt ERR", type(e).__name__, e)
