import warnings
warnings.simplefilter("ignore")
from flow.record import RecordDescriptor
from flow.record.selector import Selector
log=[]
class CStr(str):
    def upper(self): log.append("upper"); return "U"
    def evil(self): log.append("evil"); return 1
R = RecordDescriptor("t/r", [("string","s"),("varint","n"),("string[]","l")])
r = R(s="abc", n=1, l=["x"])
object.__setattr__(r, "s", CStr("abc"))
def t(e):
    log.clear()
    try: res = repr(Selector(e).match(r))
    except BaseException as ex: res = type(ex).__name__+":"+str(ex)[:70]
    print(f"{e:60} -> {res[:90]:90} log={log}")
for e in ["r.s.upper()", "lower(r.s).upper()", "'abc'.upper()", "any(f() for f in [r.s.upper])", "any(f() for f in [r.s.evil])", "(r.s).evil()", "r.s.evil()", "[r.s.evil][0]()", "(r.s.evil)()", "str(r.s).upper()",
          "any(net.ipaddress(1) for net in [r.s])", "any(string() for string in [r.s.evil])", "any(lower() for lower in [r.s.evil])", "(lambda: 1)()", "r.__class__", "r.s.__class__", "str.__class__", "lower.__globals__", "r._desc.recordType('x')",
          "name.evil()", "str.format('{0.__class__}', r)", "'{0.__class__}'.format(r)", "str.upper('x')", "r.s.evil() if True else 0", "any(x.evil() for x in [r.s])", "any(x.evil for x in [r.s])", "any(any(g() for g in [x.evil]) for x in [r.s])",
          "field_equals(r, ['__class__'], ['x'])", "getattr(r, 's')", "fields('string')", "Type.string.evil()", "r.s.evil(r.s.evil())", "lower(r.s.evil())", "lower(x=r.s.evil())", "net.ipaddress.evil()", "net.ipaddress(r.s.evil())", "string.evil()", "uri.normalize('x')", "path.from_windows('x')", "command.from_posix('ls')", "net.ipnetwork._is_subnet_of(1,2)", "digest.default()",
          ]:
    t(e)
