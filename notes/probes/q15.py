import warnings, random, collections, datetime as dt, sys
warnings.simplefilter("ignore")
sys.path.insert(0, __import__("os").path.dirname(__import__("os").path.abspath(__file__)))
from obsmod import oval, orec
from flow.record import RecordDescriptor, GroupedRecord, extend_record, iter_timestamped_records
from flow.record.stream import RecordFieldRewriter
rng = random.Random(11)
RES = ["_source","_classification","_generated","_version"]
fnames = ["a","b","c","ts","ts_description","x1","class"]
ftypes = {"string": lambda: rng.choice(["s1","s2",None]), "varint": lambda: rng.choice([1,2,None]), "datetime": lambda: rng.choice([dt.datetime(2020,1,rng.randint(1,28)), None]), "float": lambda: rng.choice([1.5,None]), "string[]": lambda: rng.sample(["p","q"], rng.randint(0,2))}
def mkdesc(i):
    n = rng.randint(0,4); fs = rng.sample(fnames, n)
    return RecordDescriptor(f"t/d{i}", [(rng.choice(list(ftypes)), f) for f in fs])
def mkrec(d):
    kw = {f: ftypes[t]() for t,f in d.get_field_tuples()}
    kw["_source"]=rng.choice([None,"S1","S2"]); kw["_generated"]=dt.datetime(2020,1,rng.randint(1,28))
    return d(**kw)
def conv_ok(t, v):  # can value v be converted to type t without error/ change? prototype: only same-type
    return True
stats=collections.Counter(); ex={}
def note(k, info):
    stats[k]+=1
    if k not in ex: ex[k]=info
for case in range(3000):
    descs=[mkdesc(i) for i in range(rng.randint(1,4))]; recs=[mkrec(d) for d in descs]
    before=[orec(r) for r in recs]
    replace = rng.random()<.5; name = rng.choice([None,"t/new"])
    # model
    order = recs[::-1] if False else recs
    fields=collections.OrderedDict()
    for r in recs:
        for t,f in r._desc.get_field_tuples():
            if f not in fields or replace: 
                if f in fields and replace: fields[f]=t
                else: fields[f]=t
    vals={}
    for f in list(fields)+RES:
        holders=[r for r in recs if f in r.__slots__]
        src = holders[-1] if replace else holders[0]
        vals[f]=getattr(src,f)
    try:
        e = extend_record(recs[0], recs[1:], replace=replace, name=name)
    except Exception as ex_:
        # conversion error possible when types differ (value from one type into another)? record
        note(("extend-raised", type(ex_).__name__), (replace, [r._desc.get_field_tuples() for r in recs], str(ex_)[:60])); continue
    exp_ft = tuple((t,f) for f,t in fields.items())
    if tuple(e._desc.get_field_tuples())!=exp_ft: note("desc-diff", (replace, exp_ft, e._desc.get_field_tuples())); continue
    if e._desc.name != (name or recs[0]._desc.name): note("name-diff", None)
    bad=[f for f in list(fields)+RES[:3] if oval(getattr(e,f)) != oval(e._desc.recordType._field_types[f](vals[f]) if vals[f] is not None and not isinstance(vals[f], e._desc.recordType._field_types[f]) else vals[f]) and not (vals[f] is None)]
    if bad: note("value-diff", (replace, bad, [ (f, vals[f], getattr(e,f)) for f in bad][:2]))
    else: note("extend-ok", None)
    if [orec(r) for r in recs]!=before: note("INPUT-MUTATED", None)
    # timestamps
    r0 = recs[0]; dtf=[f for t,f in r0._desc.get_field_tuples() if t=="datetime"]
    try: out=list(iter_timestamped_records(r0))
    except Exception as ex_: note(("ts-raised",type(ex_).__name__), r0._desc.get_field_tuples()); continue
    if not dtf:
        note("ts-none-ok" if len(out)==1 and out[0] is r0 else "ts-none-diff", None)
    else:
        ok = len(out)==len(dtf)
        for o,f in zip(out,dtf):
            if o.ts_description!=f or oval(o.ts)!=oval(getattr(r0,f)): ok=False
            for t,g in r0._desc.get_field_tuples():
                if g in ("ts","ts_description"): continue
                if oval(getattr(o,g))!=oval(getattr(r0,g)): ok=False
        note("ts-ok" if ok else "ts-DIFF", (r0._desc.get_field_tuples(), [ (o.ts_description, o.ts) for o in out], [(f,getattr(r0,f)) for f in dtf]))
print(stats)
for k,v in ex.items():
    if v is not None: print(k, str(v)[:500])
