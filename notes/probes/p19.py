import warnings, json, os, tempfile, datetime as dt, io
warnings.simplefilter("ignore")
from flow.record import RecordDescriptor, RecordWriter, RecordReader
import fastavro
d = tempfile.mkdtemp()
def av(tn, val, name="t/a"):
    p = os.path.join(d, "x.avro")
    try:
        D = RecordDescriptor(name, [(tn,"f")]); r = D(f=val)
        with RecordWriter(p) as w: w.write(r)
        out = list(RecordReader(p))
        o = out[0]
        raw = list(fastavro.reader(open(p,"rb")))
        print(f"{tn:16} {val!r:45} -> {type(o.f).__name__}:{o.f!r}   raw={raw[0]['f']!r} desc={o._desc.get_field_tuples()}")
    except Exception as e:
        print(f"{tn:16} {val!r:45} ERR {type(e).__name__}: {str(e)[:100]}")
for tn, vals in {"string":["x","a\udcffb",None,""],"varint":[2**63-1,2**63,-2**63,-2**63-1,None,0],"uint32":[2**31-1,2**31,2**32-1],"uint16":[65535],"float":[1.5,1e300,0.1,float("nan"),None],
  "boolean":[True,False,None],"bytes":[b"\x00\xff",None,b""],"digest":[("d41d8cd98f00b204e9800998ecf8427e",None,None),None],"uri":["http://x"],"filesize":[5],"unix_file_mode":[0o644],"wstring":["x"],
  "datetime":[dt.datetime(2020,1,1,12,tzinfo=dt.timezone(dt.timedelta(hours=2))), dt.datetime(1969,12,31,23,59,59,999999), dt.datetime(9999,12,31,23,59,59,999999), dt.datetime(1,1,1), dt.datetime(1970,1,1,0,0,1), dt.datetime(1970,1,1,1,11,34), dt.datetime(1970,1,1,1,11,36), None],
  "path":["/a"],"net.ipaddress":["1.2.3.4"],"string[]":[["a"]],"record":[None], "command":["ls"], "dynamic":["x"], "stringlist":[["a"]]}.items():
    for v in vals: av(tn, v)
# mixed types
p = os.path.join(d, "m.avro")
A = RecordDescriptor("t/a", [("string","f")]); B = RecordDescriptor("t/b", [("string","f")])
try:
    with RecordWriter(p) as w: w.write(A(f="1")); w.write(B(f="2"))
except Exception as e: print("mixed ERR", type(e).__name__, e)
print("after mixed:", [str(r) for r in RecordReader(p)])
# close without flush
p = os.path.join(d, "c.avro")
w = RecordWriter(p); 
for i in range(10): w.write(A(f=str(i)))
w.close()
print("size after close w/o flush", os.path.getsize(p))
try: print(len(list(RecordReader(p))))
except Exception as e: print("read ERR", type(e).__name__, e)
p = os.path.join(d, "e.avro"); w = RecordWriter(p); w.close(); print("empty size", os.path.getsize(p))
p = os.path.join(d, "e2.avro"); 
with RecordWriter(p) as w: pass
print("empty with size", os.path.getsize(p)); 
try: print(list(RecordReader(p)))
except Exception as e: print("read empty ERR", type(e).__name__, e)
print(list(fastavro.reader(open(p,"rb"))))
