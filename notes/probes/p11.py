import warnings, os, tempfile, io, gzip, bz2, shutil, subprocess
warnings.simplefilter("ignore")
from flow.record import RecordDescriptor, RecordWriter, RecordReader
import lz4.frame, zstandard
d = tempfile.mkdtemp(); os.chdir(d)
A = RecordDescriptor("t/a", [("string","s")])
recs = [A(s=str(i)) for i in range(5)]
dec = {"": lambda b: b, ".gz": gzip.decompress, ".bz2": bz2.decompress, ".lz4": lz4.frame.decompress, ".zst": lambda b: zstandard.ZstdDecompressor().decompressobj().decompress(b), ".zstd": lambda b: zstandard.ZstdDecompressor().decompressobj().decompress(b)}
for cont in ["records","avro","json","csv"]:
  for ext in dec:
    p = f"f.{cont}{ext}"
    try:
        with RecordWriter(p) as w:
            for r in recs: w.write(r)
        raw = open(p,"rb").read()
        try: plain = dec[ext](raw); dok = plain[:12]
        except Exception as e: dok = f"DECOMP-ERR {e}"
        res = {}
        shutil.copy(p, "neutral.bin")
        for how, fn in [("path", lambda: RecordReader(p)), ("neutral", lambda: RecordReader("neutral.bin")), ("fileobj", lambda: RecordReader(fileobj=open(p,"rb"))), ("bytesio", lambda: RecordReader(fileobj=io.BytesIO(raw)))]:
            try:
                rd = fn(); res[how] = (type(rd).__name__, [r.s for r in rd])
            except Exception as e: res[how] = f"ERR {type(e).__name__}: {str(e)[:50]}"
        print(p, raw[:4], dok, res)
    except Exception as e: print(p, "WERR", type(e).__name__, e)
for junk in [b"", b"hello world this is text", b"<t/a s='x'>", b"\x1f\x8b garbage", b"Obj\x01garbage", b"RECORDSTREAM\n", b"\x00"*100, gzip.compress(b"not a stream at all........")]:
    for how in ("fileobj","path"):
        try:
            if how=="fileobj": rd = RecordReader(fileobj=io.BytesIO(junk))
            else:
                open("junk.bin","wb").write(junk); rd = RecordReader("junk.bin")
            print(junk[:14], how, type(rd).__name__, list(rd))
        except Exception as e: print(junk[:14], how, "ERR", type(e).__name__, str(e)[:60])
# stdin
raw = open("f.records.gz","rb").read()
p = subprocess.run(["/venv/bin/rdump"], input=raw, capture_output=True); print(p.stdout[:60], p.stderr[-100:])
raw = open("f.avro","rb").read()
p = subprocess.run(["/venv/bin/rdump"], input=raw, capture_output=True); print(p.stdout[:60], p.stderr[-100:])
