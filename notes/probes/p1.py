import io, math, struct, datetime as dt, pathlib, warnings
warnings.simplefilter("ignore")
from flow.record import RecordDescriptor, RecordStreamWriter, RecordStreamReader, GroupedRecord
from flow.record import fieldtypes as ft

def rt(recs):
    b = io.BytesIO()
    w = RecordStreamWriter(b)
    for r in recs: w.write(r)
    data = b.getvalue()
    return list(RecordStreamReader(io.BytesIO(data))), data

D = RecordDescriptor("t/all", [
 ("string","s"),("varint","v"),("float","f"),("boolean","b"),("uint16","u16"),("uint32","u32"),
 ("bytes","by"),("datetime","d"),("net.ipaddress","ip"),("net.ipnetwork","net"),("path","p"),
 ("command","c"),("digest","dg"),("uri","u"),("filesize","fs"),("unix_file_mode","m"),("dynamic","dy"),
 ("stringlist","sl"),("dictlist","dl"),("wstring","ws"),("string[]","sL"),("varint[]","vL"),("path[]","pL"),("net.ipaddress[]","ipL"),("datetime[]","dL"),
])
r = D()
out,_ = rt([r])
for k in D.recordType.__slots__:
    a,b = getattr(r,k), getattr(out[0],k)
    print(k, type(a).__name__, repr(a), '->', type(b).__name__, repr(b))
