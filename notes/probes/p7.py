import warnings
warnings.simplefilter("ignore")
from flow.record import RecordDescriptor
from flow.record.selector import Selector, CompiledSelector
R = RecordDescriptor("t/r", [("varint","n"),("string","s"),("string[]","l"),("varint[]","nl"),("net.ipaddress","ip"),("uri","u"),("float","f"),("boolean","b"),("datetime","d"),("bytes","by"),("path","p")])
r = R(n=100, s="Hello", l=["a","b"], nl=[1,5,9], ip="10.0.0.1", u="http://x/y/z.txt", f=1.5, b=True, d="2020-01-01", by=b"ab", p="/a/b")
def t(e, rec=r):
    out=[]
    for cls in (Selector, CompiledSelector):
        try: out.append(repr(bool(cls(e).match(rec))))
        except BaseException as ex: out.append(type(ex).__name__+":"+str(ex)[:60])
    print(f"{e:60} I={out[0]:40} C={out[1]}")
for e in ["1 < r.n < 3", "r.n - 1 == 99", "r.n == -1", "-r.n < 0", "r.n // 3 == 33", "r.n ** 2 > 5", "r.n ^ 1", "r.n << 1", "~r.n", "+r.n",
          "r.n is None", "r.n is not None", "r.n > 5 and r.s == 'Hello'", "not r.n", "r.n if r.s else 0", "r.l[0] == 'a'", "{1:2}", "{1,2}", "[x for x in r.l]", "f'{r.n}'",
          "any(x > 4 for x in r.nl)", "all(x > 0 for x in r.nl)", "any(x for x in r.nl if x > 100)", "any(x > 4 for x in r.nl) and any(x > 4 for x in r.nl)", "any(x > 4 for x in r.nl) and any(y > 4 for y in r.nl)",
          "any(x+y == 14 for x in r.nl for y in r.nl)", "any(a for a, b in [(0,1)])", "any(r for r in r.nl)",
          "'a' in r.l", "'z' not in r.l", "r.s in ['Hello']", "'ell' in r.s", "lower(r.s) == 'hello'", "upper(r.s) == 'HELLO'", "name(r) == 't/r'", "'t/r' in names(r)", "get_type(r.n)", "has_field(r, 'n')",
          "field_contains(r, ['s'], ['ELL'])", "field_equals(r, ['s','zz'], ['hello'])", "field_regex(r, ['s'], 'H.l+o')", "field_contains(r, ['s'], ['hello'], nocase=False)", "field_contains(r, ['s'], ['hello'], word_boundary=True)",
          "r.ip in net.ipnetwork('10.0.0.0/8')", "net.ipaddress('10.0.0.1') == r.ip", "string('x') == 'x'", "r.u.filename == 'z.txt'", "Type.uri.filename == 'z.txt'", "'ell' in Type.string", "Type.varint == 100", "Type.varint >= 100", "Type.varint <= 100", "Type.varint > 99", "Type.varint != 100", "Type.net.ipaddress in net.ipnetwork('10.0.0.0/8')", "'z.txt' in Type.uri.filename", "Type.string", "Type.nonexist == 1", "field_contains(r, Type.string, ['ell'])",
          "r.n == 100 or r.zz.y == 1", "r.n / 0", "r.n % 7 == 2", "r.n & 4", "r.n | 1", "r.n + 1 > 100", "r.n * 2 == 200", "r.s + 'x' == 'Hellox'", "(r.n, 1) == (100, 1)", "[r.n] == [100]", "r.f == 1.5", "r.b == True", "r.b", "r.by == b'ab'", "r.p == '/a/b'", "str(r.p) == '/a/b'", "repr(r.n)", "str(r.d) > '2019'", "r.d.year == 2020",
          "fields('string')", "len(r.l)", "int('5')", "r.n == 100 == r.n", "1 < 2 > 3", "r.n in (100,) in [True]", "", "True", "None", "r", "lambda: 1", "r.n.bit_length()", "r.n.real == 100", "r._desc.name == 't/r'", "r._source is None", "r.s.upper", "abs", "abs(r.n)", "print", "1 if True else 2",
          ]:
    t(e)
