import warnings, io, json
warnings.simplefilter("ignore")
from flow.record import RecordDescriptor
import flow.record.base as base
cap=[]
_exec = exec
def spy(code, g=None, l=None):
    cap.append(code); return _exec(code, g, l)
base.exec = spy
def t(name, fields):
    try:
        d = RecordDescriptor(name, fields)
        print("ACCEPT", repr(name), fields, d.recordType.__slots__)
    except BaseException as e:
        print("REJECT", repr(name), fields, type(e).__name__, str(e)[:80])
t("a\n", [("string","x")])
t("a", [("string","x\n")])
t("a/b\n", [])
t("a", [("string\n","x")])
t("a", [("string[]","x")])
t("a", [("string[][]","x")])
t("a", [("[]","x")])
t("a", [("net.ipaddress","x")])
t("a", [("net.ipv4","x")])
t("a", [("net","x")])
t("a", [("os.system","x")])
t("a", [("string","_x")])
t("a", [("string","__x")])
t("a", [("string","x"),("string","x")])
t("a", [("string","_source")])
t("a", [("string","class")])
t("a", [("string","é")])
t("é", [])
t("a/", []); t("/a", []); t("a//b", []); t("1a", []); t("a b", []); t("a.b", [])
t("a", [("string","None")]); t("a", [("string","True")]); t("a", [("string","__self")]) ; t("a", [("string","Record")]); t("a", [("string","self")])
t("a", [("string","x=1, y")])
t(b"a", [(b"string",b"x")])
t("a", [("string", "x"*100000)])
t("a", [("string", "print")])
t("Record", [("string", "x")])
t("a", [("string", "a")])
t("a", [("string", "RECORD_VERSION")])
t("a", [("string", "_utcnow")]); t("a", [("string", "_zip_longest")]); t("a", [("string", "_field_x")])
t("a", [("string", "args")]); t("a", [("string", "kwargs"), ("string","class")]);
t("a", [("string", "k"), ("string","v"),("string","class")]);
print(len(cap))
print(cap[-1][:1500])
