import random, collections, warnings, datetime as dt, ast
warnings.simplefilter("ignore")
from refsel import *
R1 = RecordDescriptor("t/r1", [("varint","n"),("varint","m"),("string","s"),("string","t"),("string[]","l"),("varint[]","nl"),("float","f"),("boolean","b"),("bytes","by"),("net.ipaddress","ip"),("uri","u"),("datetime","d"),("path","p")])
rng = random.Random(1)
def mkrec():
    return R1(n=rng.choice([0,1,2,3,5,100,-1,2**70]), m=rng.choice([0,1,2,3,7]), s=rng.choice(["", "Hello","hello","a b","x"]), t=rng.choice(["hello","b","X",""]), l=rng.sample(["a","b","hello","x"], rng.randint(0,3)),
              nl=rng.sample([0,1,2,3,5,9], rng.randint(0,4)), f=rng.choice([0.0,1.5,-2.5,float("inf")]), b=rng.choice([True,False]), by=rng.choice([b"", b"ab"]), ip=rng.choice(["10.0.0.1","::1","192.168.1.1"]),
              u=rng.choice(["http://x/y/z.txt","ftp://h/a"]), d=rng.choice([dt.datetime(2020,1,1), dt.datetime(1999,5,5,5,5)]), p=rng.choice(["/a/b","c.txt"]))
ints = ["r.n","r.m","0","1","2","3","100","len_l"]
def gi(d):
    c = rng.random()
    if d<=0 or c<.5: return rng.choice(["r.n","r.m","0","1","2","3","5","100","r.d.year"])
    op = rng.choice(["+","*","%","&","|","/","-","//"])
    return f"({gi(d-1)} {op} {gi(d-1)})"
def gs(d):
    c = rng.random()
    if d<=0 or c<.5: return rng.choice(["r.s","r.t","'hello'","'Hello'","'b'","''","'x'","str(r.n)","name(r)","r.u.filename", "str(r.p)"])
    if c<.7: return f"lower({gs(d-1)})"
    if c<.85: return f"upper({gs(d-1)})"
    return f"({gs(d-1)} + {gs(d-1)})"
def gb(d):
    c = rng.random()
    if d<=0 or c<.35:
        k = rng.randrange(12)
        if k==0: return f"{gi(1)} {rng.choice(['==','!=','<','<=','>','>='])} {gi(1)}"
        if k==1: return f"{gs(1)} {rng.choice(['==','!=','<','<=','>','>='])} {gs(1)}"
        if k==2: return f"{gs(0)} {rng.choice(['in','not in'])} {rng.choice(['r.l', gs(1), '['+gs(0)+', '+gs(0)+']', '('+gs(0)+',)'])}"
        if k==3: return f"{gi(0)} {rng.choice(['in','not in'])} {rng.choice(['r.nl','[1, 2, 3]','(0, 100)'])}"
        if k==4: return f"{gi(1)} {rng.choice(['<','<=','==','>'])} {gi(1)} {rng.choice(['<','<=','!=','>='])} {gi(1)}"
        if k==5: return rng.choice(["r.b","r.n","r.s","r.l","r.f","r.by","not r.b"])
        if k==6: return f"{rng.choice(['any','all'])}(x {rng.choice(['>','==','<='])} {gi(0)} for x in r.nl)"
        if k==7: return f"any(x == y for x in r.l for y in [{gs(0)}, {gs(0)}])"
        if k==8: return f"field_contains(r, ['s','t'], [{gs(0)}])"
        if k==9: return f"field_equals(r, ['s','zz'], [{gs(0)}], nocase={rng.choice(['True','False'])})"
        if k==10: return f"r.ip in net.ipnetwork('{rng.choice(['10.0.0.0/8','::/0','192.168.0.0/16'])}')"
        if k==11: return f"r.n is {rng.choice(['None','not None'])}"
    if c<.55: return f"({gb(d-1)} and {gb(d-1)})"
    if c<.75: return f"({gb(d-1)} or {gb(d-1)})"
    if c<.9: return f"not ({gb(d-1)})"
    return f"({gb(d-1)} and {gb(d-1)} or {gb(d-1)})"
import ipaddress
from flow.record.fieldtypes import net as ftnet
stats = collections.Counter(); ex = collections.defaultdict(list)
for i in range(4000):
    e = gb(3); rec = mkrec()
    try:
        ns_extra = None
        tree = ast.parse(e, mode="eval"); ns = mkns(rec); ns["net"] = ftnet
        want = ("V", bool(ev(tree.body, ns)))
    except Undefined as u: want = ("UNDEF", str(u)[:30])
    except Unsupported as u: want = ("UNSUP", str(u))
    for eng, cls in (("I", Selector), ("C", CompiledSelector)):
        try: got = ("V", bool(cls(e).match(rec)))
        except Exception as x: got = ("E", type(x).__name__)
        if want[0]=="V":
            k = (eng, "agree" if got==want else ("wrong" if got[0]=="V" else "raised:"+got[1]))
        else:
            k = (eng, want[0], got[0])
        stats[k]+=1
        if len(ex[k])<4: ex[k].append((e, want, got))
for k,v in sorted(stats.items()): print(k, v)
for k in ex:
    if k[1] not in ("agree",): 
        print("==", k)
        for x in ex[k][:4]: print("   ", x)
