import warnings, os, tempfile, io, datetime as dt
warnings.simplefilter("ignore")
from zoneinfo import ZoneInfo
from flow.record import RecordDescriptor, RecordWriter, RecordReader
d = tempfile.mkdtemp(); os.chdir(d)
T = RecordDescriptor("t/t", [("datetime","d")])
cases = [dt.datetime(2020,1,1,12,tzinfo=dt.timezone(dt.timedelta(hours=5,minutes=30,seconds=15))), dt.datetime(1,1,1,tzinfo=dt.timezone(dt.timedelta(hours=-12))), dt.datetime(9999,12,31,23,59,59,999999,tzinfo=dt.timezone(dt.timedelta(hours=14))),
  dt.datetime(2021,10,31,2,30,tzinfo=ZoneInfo("Europe/Amsterdam"), fold=1), dt.datetime(2021,10,31,2,30,tzinfo=ZoneInfo("Europe/Amsterdam"), fold=0), dt.datetime(2021,3,28,2,30,tzinfo=ZoneInfo("Europe/Amsterdam")),
  dt.datetime(1969,7,20,20,17,40,1), dt.datetime(1900,1,1,tzinfo=ZoneInfo("Europe/Amsterdam")), dt.datetime(2020,6,1,tzinfo=ZoneInfo("America/St_Johns"))]
def key(x): return None if x is None else (x.replace(tzinfo=None), x.utcoffset())
for uri in ["a.records","a.json","sqlite://a.db","avro://a.avro"]:
    for c in cases:
        for f in os.listdir("."): os.unlink(f)
        try:
            r = T(d=c)
            with RecordWriter(uri) as w: w.write(r)
            o = list(RecordReader(uri))[0]
            same = key(o.d)==key(r.d); inst = (o.d - dt.datetime(1970,1,1,tzinfo=dt.timezone.utc)) == (r.d - dt.datetime(1970,1,1,tzinfo=dt.timezone.utc))
            if not same: print(uri, c.isoformat(), c.tzinfo, "->", o.d.isoformat(), "instant_same", inst)
        except Exception as e: print(uri, repr(c), "ERR", type(e).__name__, e)
print(T(d=cases[3]).d.isoformat(), T(d=cases[4]).d.isoformat(), T(d=cases[3]).d.fold)
