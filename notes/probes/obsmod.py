import struct, datetime as _dt, pathlib, ipaddress as _ip
from flow.record.base import Record, GroupedRecord
def oval(v):
    if v is None: return None
    if isinstance(v, GroupedRecord): return ("grouped", v.name, [orec(r) for r in v.records])
    if isinstance(v, Record): return orec(v)
    cn = type(v).__name__
    if isinstance(v, bool): return ("bool", v)
    if isinstance(v, _dt.datetime):
        off = v.utcoffset()
        return ("dt", v.year,v.month,v.day,v.hour,v.minute,v.second,v.microsecond, None if off is None else (off.days*86400+off.seconds)*10**6+off.microseconds)
    if isinstance(v, float): return ("float", struct.pack(">d", v).hex())
    if isinstance(v, int):
        val = getattr(v, "value", None)
        if cn == "boolean": return ("boolean", bool(val))
        return ("int", cn, int(v))
    if isinstance(v, str): return ("str", cn if cn!="wstring" else "string", [ord(c) for c in v])
    if isinstance(v, (bytes, bytearray)): return ("bytes", bytes(v).hex())
    if isinstance(v, pathlib.PurePath):
        return ("path", "win" if isinstance(v, pathlib.PureWindowsPath) else "posix", str(v))
    if cn in ("ipaddress",): 
        a = v.val; return ("ip", a.version, int(a), getattr(a, "scope_id", None))
    if cn in ("ipnetwork",): return ("net", v.val.version, str(v.val))
    if cn in ("posix_command","windows_command"): return ("cmd", cn, oval(v.executable), list(v.args) if v.args is not None else None)
    if cn == "digest": return ("digest", (v.md5 or "").lower() if isinstance(v.md5,str) else v.md5, (v.sha1 or "").lower() if isinstance(v.sha1,str) else v.sha1, (v.sha256 or "").lower() if isinstance(v.sha256,str) else v.sha256)
    if cn == "address": return ("ipv4addr", v.val)
    if isinstance(v, (list, tuple)):
        return ("list", cn if cn.endswith("[]") or cn in ("stringlist","dictlist") else "seq", [oval(x) for x in v])
    if isinstance(v, dict): return ("dict", [(oval(k), oval(x)) for k,x in v.items()])
    return ("other", cn, repr(v))
def orec(r):
    if isinstance(r, GroupedRecord): return oval(r)
    return ("rec", r._desc.name, tuple(r._desc.get_field_tuples()), [(k, oval(getattr(r,k))) for k in r.__slots__])
def is_unset(o): return o is None or (o[0]=="list" and o[2]==[]) or (o[0]=="digest" and not any(o[1:]))
