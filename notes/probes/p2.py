import io, math, struct, datetime as dt, pathlib, warnings, traceback
warnings.simplefilter("ignore")
from flow.record import RecordDescriptor, RecordStreamWriter, RecordStreamReader, GroupedRecord
from flow.record import fieldtypes as ft
from zoneinfo import ZoneInfo

def rt(recs):
    b = io.BytesIO()
    w = RecordStreamWriter(b)
    for r in recs: w.write(r)
    data = b.getvalue()
    return list(RecordStreamReader(io.BytesIO(data))), data

def sr(x):
    try: return repr(x)
    except Exception as e: return "<repr fail %s>" % type(e).__name__
def one(typ, val):
    D = RecordDescriptor("t/one", [(typ,"x")])
    try:
        r = D(x=val)
    except Exception as e:
        print(f"{typ:16} {val!r:40} CONSTRUCT-RAISE {type(e).__name__}: {e}"); return
    try:
        out,_ = rt([r])
    except Exception as e:
        print(f"{typ:16} {val!r:40} RT-RAISE {type(e).__name__}: {e}"); return
    a,b = r.x, out[0].x
    print(f"{typ:16} {sr(val):40} {type(a).__name__}:{sr(a)} -> {type(b).__name__}:{sr(b)}  eq={a==b}")

for v in [2**63-1, 2**63, 2**64-1, 2**64, -2**63, -2**63-1, 10**40, -10**40, 0, True]:
    one("varint", v)
for v in [float("nan"), -0.0, float("inf"), 1e308, 5e-324, 3]:
    one("float", v)
D = RecordDescriptor("t/one", [("float","x")])
nan2 = struct.unpack(">d", bytes.fromhex("7ff8000000000123"))[0]
out,_ = rt([D(x=nan2)]); print("nan payload", struct.pack(">d", out[0].x).hex())
for v in ["::1", "::", "0.0.0.1", "::ffff:1.2.3.4", "1.2.3.4", "fe80::1", "::ffff:ffff", 1, 2**32, "1.2.3.4%eth0", "fe80::1%eth0"]:
    one("net.ipaddress", v)
for v in ["::/0","0.0.0.0/0","::1/128","10.0.0.0/8","10.0.0.1/8"]:
    one("net.ipnetwork", v)
for v in ["abc\udcff", b"\xff\xfe", "\ud800", "a\x00b", ""]:
    one("string", v)
for v in [b"", b"\x00"*3, bytearray(b"a"), "str", memoryview(b"a")]:
    one("bytes", v)
for v in [dt.datetime(2020,1,1), dt.datetime(2020,1,1,tzinfo=dt.timezone(dt.timedelta(hours=5,minutes=30,seconds=15))),
          dt.datetime(1,1,1), dt.datetime(9999,12,31,23,59,59,999999), dt.datetime(1969,12,31,23,59,59,999999, tzinfo=dt.timezone.utc),
          dt.datetime(2021,10,31,1,30,tzinfo=ZoneInfo("Europe/Amsterdam"), fold=1), dt.datetime(2021,3,28,2,30,tzinfo=ZoneInfo("Europe/Amsterdam")),
          dt.datetime(2020,1,1,tzinfo=ZoneInfo("UTC")), "2020-01-01T00:00:00Z", "2020-01-01 00:00:00.123456789+02:00", 0, -1.5, 1e11,
          dt.datetime(2020,1,1,tzinfo=dt.timezone(dt.timedelta(microseconds=1))), dt.datetime(1,1,1,tzinfo=dt.timezone(dt.timedelta(hours=14)))]:
    one("datetime", v)
for v in ["/a/b", "C:\\a\\b", pathlib.PureWindowsPath("C:\\a"), pathlib.PurePosixPath("/x"), "", ".", "a\\b", ft.path.from_windows("a/b"), "//a/b", "/a//b/", "\udcff"]:
    one("path", v)
for v in ["ls -l /tmp", "C:\\x.exe /a /b", "", "'a b' c", "%windir%\\x.exe a", "\\\\srv\\x a", "a 'b", ("ls", ["-l"]), None]:
    one("command", v)
for v in [("d41d8cd98f00b204e9800998ecf8427e", None, None), (None,None,None), ("D41D8CD98F00B204E9800998ECF8427E",None,None), {"md5":"d41d8cd98f00b204e9800998ecf8427e"}, "d41d8cd98f00b204e9800998ecf8427e", ("zz",None,None), ("aabb",None,None), 5]:
    one("digest", v)
for v in [0, 65535, 65536, -1, 3.7, "12", True, None]:
    one("uint16", v)
for v in [0,1,2,-1,True,False,"1", 0.5, 1.0]:
    one("boolean", v)
for v in [[], ["a", b"\xff"], "abc", None, [None], (1,2)]:
    one("string[]", v)
for v in [["a"], [1], None]:
    one("stringlist", v)
for v in [[{"a":1}], [{"a":{"b":[1,2]}}]]:
    one("dictlist", v)
for v in ["http://a/b?c#d", "x"]:
    one("uri", v)
for v in [b"x", "s", 1, True, dt.datetime(2020,1,1), [1,"a"], pathlib.PurePosixPath("/x"), 1.5, None]:
    one("dynamic", v)
