import ast, operator, re, random, warnings, collections, datetime as dt
warnings.simplefilter("ignore")
from flow.record import RecordDescriptor
from flow.record.selector import Selector, CompiledSelector

class Undefined(Exception): pass
class Unsupported(Exception): pass

BIN = {ast.Add: operator.add, ast.Mult: operator.mul, ast.Div: operator.truediv, ast.Mod: operator.mod, ast.BitAnd: operator.and_, ast.BitOr: operator.or_,
       ast.Sub: operator.sub, ast.FloorDiv: operator.floordiv, ast.Pow: operator.pow, ast.BitXor: operator.xor, ast.LShift: operator.lshift, ast.RShift: operator.rshift}
CMP = {ast.Eq: operator.eq, ast.NotEq: operator.ne, ast.Lt: operator.lt, ast.LtE: operator.le, ast.Gt: operator.gt, ast.GtE: operator.ge,
       ast.Is: operator.is_, ast.IsNot: operator.is_not, ast.In: lambda a,b: a in b, ast.NotIn: lambda a,b: a not in b}

class RefRec:
    def __init__(s, rec): object.__setattr__(s, "_rec", rec)
    def __getattr__(s, k):
        rec = object.__getattribute__(s, "_rec")
        if k == "_desc": return rec._desc
        if k in rec._desc.get_all_fields(): return getattr(rec, k)
        raise Undefined("missing field "+k)

def h_lower(s): return s.lower() if isinstance(s, str) else s
def h_upper(s): return s.upper() if isinstance(s, str) else s
def mkns(rec):
    rr = RefRec(rec)
    def name(r): return rec._desc.name
    def names(r): return {rec._desc.name}
    def has_field(r, f): return f in rec._desc.fields
    def fget(f):
        return getattr(rec, f) if f in rec._desc.get_all_fields() else _MISSING
    _MISSING = object()
    def field_equals(r, fields, strings, nocase=True):
        ss = [h_lower(s) for s in strings] if nocase else strings
        for f in fields:
            v = fget(f)
            if v is _MISSING: continue
            if nocase: v = h_lower(v)
            if any(s == v for s in ss): return True
        return False
    def field_contains(r, fields, strings, nocase=True, word_boundary=False):
        ss = [h_lower(s) for s in strings] if nocase else strings
        for f in fields:
            v = fget(f)
            if v is _MISSING: continue
            if nocase: v = h_lower(v)
            for s in ss:
                if not word_boundary:
                    if s in v: return True
                else:
                    if v is None:
                        if s is None: return True
                        continue
                    if not isinstance(v, str): continue
                    if re.search(r"\b%s\b" % re.escape(s), v): return True
        return False
    def field_regex(r, fields, regex):
        for f in fields:
            v = fget(f)
            if v is _MISSING: continue
            if re.search(regex, v) is not None: return True
        return False
    return {"r": rr, "lower": h_lower, "upper": h_upper, "name": name, "names": names, "has_field": has_field, "field_equals": field_equals,
            "field_contains": field_contains, "field_regex": field_regex, "str": str, "repr": repr, "any": any, "all": all, "True": True, "False": False, "None": None}

def ev(node, ns):
    try: return _ev(node, ns)
    except (Undefined, Unsupported): raise
    except Exception as e: raise Undefined(f"{type(e).__name__}: {e}")
def _ev(n, ns):
    if isinstance(n, ast.Constant): return n.value
    if isinstance(n, ast.List): return [ev(e, ns) for e in n.elts]
    if isinstance(n, ast.Tuple): return tuple(ev(e, ns) for e in n.elts)
    if isinstance(n, ast.Name):
        if n.id in ns: return ns[n.id]
        raise Unsupported("name "+n.id)
    if isinstance(n, ast.Attribute):
        o = ev(n.value, ns)
        return getattr(o, n.attr)
    if isinstance(n, ast.BoolOp):
        vals = [bool(ev(v, ns)) for v in n.values]   # eager
        return all(vals) if isinstance(n.op, ast.And) else any(vals)
    if isinstance(n, ast.UnaryOp):
        v = ev(n.operand, ns)
        if isinstance(n.op, ast.Not): return not v
        if isinstance(n.op, ast.USub): return -v
        if isinstance(n.op, ast.UAdd): return +v
        if isinstance(n.op, ast.Invert): return ~v
    if isinstance(n, ast.BinOp): return BIN[type(n.op)](ev(n.left, ns), ev(n.right, ns))
    if isinstance(n, ast.Compare):
        vals = [ev(n.left, ns)] + [ev(c, ns) for c in n.comparators]  # eager operands
        res = True
        for op, a, b in zip(n.ops, vals, vals[1:]):
            res = CMP[type(op)](a, b)
            if not res: return res    # python returns first falsy result
        return res
    if isinstance(n, ast.Call):
        f = ev(n.func, ns)
        args = [ev(a, ns) for a in n.args]; kw = {k.arg: ev(k.value, ns) for k in n.keywords}
        return f(*args, **kw)
    if isinstance(n, ast.GeneratorExp):
        def gen(gens, ns):
            g = gens[0]
            for x in ev(g.iter, ns):
                ns2 = dict(ns); ns2[g.target.id] = x
                if not all(ev(c, ns2) for c in g.ifs): continue
                if len(gens) > 1: yield from gen(gens[1:], ns2)
                else: yield ev(n.elt, ns2)
        return list(gen(n.generators, ns))   # eager materialise
    raise Unsupported(type(n).__name__)

def ref_match(expr, rec):
    tree = ast.parse(expr, mode="eval")
    return bool(ev(tree.body, mkns(rec)))
