import warnings, json, os, tempfile, datetime as dt
warnings.simplefilter("ignore")
from flow.record import RecordDescriptor, RecordWriter, RecordReader
d = tempfile.mkdtemp()
vals = {"string":["x","a\udcffb",""," ",None],"varint":[10**30,-1,None],"float":[1.5,float("nan"),float("inf"),None],"boolean":[True,False,None],"datetime":[dt.datetime(2020,1,1,tzinfo=dt.timezone(dt.timedelta(hours=2,seconds=7))),None],
 "bytes":[b"\x00\xff",b"",None],"digest":[("d41d8cd98f00b204e9800998ecf8427e",None,None),None],"net.ipaddress":["::1","1.2.3.4",None],"net.ipnetwork":["10.0.0.0/8",None],"uri":["http://x/y",None],"path":["/a/b","",None],
 "uint16":[5,None],"uint32":[5,None],"filesize":[5,None],"unix_file_mode":[0o644,None],"wstring":["w"],"stringlist":[["a","b"],None],"dictlist":[[{"a":1}]],"dynamic":["x",5,None], "command":["ls -l"]}
for t, vs in vals.items():
  for suffix in ("","[]"):
    if suffix and t in ("stringlist","dictlist","dynamic"): continue
    for v in vs:
        tn=t+suffix
        val = v if not suffix else ([v,v] if v is not None else [])
        p = os.path.join(d, "x.json")
        try:
            D = RecordDescriptor("t/j", [(tn,"f")]); r = D(f=val)
            with RecordWriter(p) as w: w.write(r)
            txt = open(p).read()
            out = list(RecordReader(p))
            o = out[0]
            same = (type(o.f)==type(r.f) and (o.f==r.f or repr(o.f)==repr(r.f)))
            if not same: print(f"{tn:18} {val!r:50} DIFF {type(r.f).__name__}:{r.f!r} -> {type(o.f).__name__}:{o.f!r}")
        except Exception as e:
            print(f"{tn:18} {val!r:50} ERR {type(e).__name__}: {str(e)[:80]}")
# no descriptors
p = os.path.join(d, "n.json")
D = RecordDescriptor("t/j", [("string","s"),("varint","v"),("bytes","b"),("datetime","d"),("float","f"),("string[]","l")])
with RecordWriter("jsonfile://"+p+"?descriptors=false") as w: w.write(D(s="x",v=10**30,b=b"ab",d="2020-01-01",f=1.5,l=["a"])); w.write(D())
print(open(p).read())
for r in RecordReader(p): print(r, r._desc.get_field_tuples())
p = os.path.join(d, "i.json")
with RecordWriter("jsonfile://"+p+"?indent=2") as w: w.write(D(s="x"))
try: print(list(RecordReader(p)))
except Exception as e: print("indent read ERR", type(e).__name__, e)
