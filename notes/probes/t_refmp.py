import io, warnings, datetime as dt
warnings.simplefilter("ignore")
from flow.record import RecordDescriptor, RecordStreamWriter, GroupedRecord
import refmp
N = RecordDescriptor("t/inner", [("string","i")])
D = RecordDescriptor("t/all", [("string","s"),("varint","v"),("float","f"),("boolean","b"),("bytes","by"),("datetime","d"),("datetime","d2"),("net.ipaddress","ip"),("net.ipnetwork","net"),("path","p"),("command","c"),("digest","dg"),("record","r"),("string[]","l"),("uint16","u")])
r = D(s="a\udcff", v=-2**70, f=1.5, b=True, by=b"\x00", d=dt.datetime(2020,1,1), d2=dt.datetime(2020,1,1,tzinfo=dt.timezone(dt.timedelta(hours=1))), ip="::1", net="10.0.0.0/8", p="C:\\x", c="ls -l", dg=("d41d8cd98f00b204e9800998ecf8427e",None,None), r=N(i="n"), l=["x","y"], u=7, _generated=dt.datetime(2020,1,1))
b = io.BytesIO(); w = RecordStreamWriter(b); w.write(r); w.write(GroupedRecord("t/g",[N(i="1",_generated=dt.datetime(2020,1,1))]))
for f in refmp.frames(b.getvalue()): print(refmp.deext(f))
