import warnings, os, tempfile, datetime as dt, subprocess, sys
warnings.simplefilter("ignore")
from flow.record import RecordDescriptor, RecordWriter, RecordReader
d = tempfile.mkdtemp(); os.chdir(d)
A = RecordDescriptor("t/a", [("string","s"),("varint","v"),("datetime","ts")]); B = RecordDescriptor("t/b", [("varint","v"),("string","other")])
def mk(p, recs):
    with RecordWriter(p) as w:
        for r in recs: w.write(r)
mk("g1.records", [A(s=f"a{i}", v=i, ts="2020-01-01") if i%2 else B(v=i, other="o") for i in range(6)])
mk("g2.records.gz", [A(s=f"b{i}", v=10+i) for i in range(4)])
open("trunc.records","wb").write(open("g1.records","rb").read()[:-30])
open("garbage.records","wb").write(b"\x00\x01garbage"*10)
open("empty.records","wb").write(b"")
def rdump(*args, stdin=None):
    p = subprocess.run(["/venv/bin/rdump", *args], capture_output=True, input=stdin)
    return p.returncode, p.stdout, p.stderr
def show(*args):
    rc,out,err = rdump(*args)
    print("$ rdump", " ".join(args), "-> rc", rc); print(out.decode(errors="replace")[:1500]); print("ERR:", err.decode()[-400:] if err else "")
show("g1.records","missing.records","trunc.records","garbage.records","empty.records","g2.records.gz", "-F","v")
show("g1.records","g2.records.gz","-s","r.v >= 3","--skip","1","-c","3","-X","ts")
show("g1.records","-s","r.s <= 'a3'")
show("g1.records","-n","-s","r.s <= 'a3'")
show("g1.records","-s","r.s == 'a3'", "--record-source","SRC","--multi-timestamp","-J")
show("g1.records","-c","0")
show("g1.records","-l")
show("g1.records","-C", "-F", "v,s")
rc,out,err = rdump("g1.records","-w","-")
print(len(out), [str(r) for r in __import__("flow.record").record.RecordStreamReader(__import__("io").BytesIO(out))][:2])
