import warnings, io, itertools, collections, sys, datetime as dt, hashlib, json
warnings.simplefilter("ignore")
sys.path.insert(0, __import__("os").path.dirname(__import__("os").path.abspath(__file__)))
import refmp
from flow.record import RecordDescriptor, RecordStreamWriter, RecordStreamReader, GroupedRecord
from flow.record.adapter.jsonfile import JsonfileWriter, JsonfileReader
G = dt.datetime(2020,1,1)
A = RecordDescriptor("t/c", [("stringlist","a"),("string","b")]); B = RecordDescriptor("t/c", [("string","a"),("string","listb")])
C = RecordDescriptor("t/n", [("string","a")]); D = RecordDescriptor("t/n", [("varint","z"),("string","a")])
I = RecordDescriptor("t/inner", [("string","i")]); I2 = RecordDescriptor("t/inner2", [("varint","j")])
H = RecordDescriptor("t/holder", [("record","r"),("record[]","rs")])
K = RecordDescriptor("t/kw", [("string","class"),("varint","x")])
makers = {
 "A": lambda: A(a=["x"], b="y", _generated=G), "B": lambda: B(a="p", listb="q", _generated=G), "C": lambda: C(a="1", _generated=G), "D": lambda: D(z=1, a="2", _generated=G),
 "H": lambda: H(r=I(i="n", _generated=G), rs=[I2(j=1, _generated=G)], _generated=G), "Gr": lambda: GroupedRecord("t/grp", [I(i="g", _generated=G), C(a="gc", _generated=G)]),
 "K": lambda: K(**{"class":"k","x":1,"_generated":G}), "I": lambda: I(i="plain", _generated=G)}
def s(x): return x.raw.decode() if isinstance(x, refmp.Str) else x
def calc_hash(name, fields): return int.from_bytes(hashlib.sha256((name+"".join(n+t for t,n in fields)).encode()).digest()[:4],"big")
def events(data):
    ev=[]
    for f in refmp.frames(data):
        v = refmp.deext(f)
        if isinstance(v, bytes): ev.append(("HDR",)); continue
        _, sub, payload = v
        if sub==2: ev.append(("DESC", s(payload[0]), tuple((s(t),s(n)) for t,n in payload[1])))
        elif sub==1: ev.append(("REC", rec_ids(payload)))
        elif sub==0x12: ev.append(("GREC", [ (s(m[0][0]), m[0][1], nested(m[1])) for m in payload[1]]))
    return ev
def nested(values):
    out=[]
    for v in values:
        if isinstance(v, tuple) and v and v[0]=="EXT" and v[1]==1: out.append(rec_ids(v[2]))
        elif isinstance(v, list):
            out += [rec_ids(x[2]) for x in v if isinstance(x, tuple) and x and x[0]=="EXT" and x[1]==1]
    return out
def rec_ids(payload):
    ident, values = payload
    return (s(ident[0]), ident[1], len(values), nested(values))
def flat(recid):
    name, h, n, kids = recid
    yield (name,h,n)
    for k in kids: yield from flat(k)
def desc_of(rec):
    if isinstance(rec, GroupedRecord): return [ (m._desc.name, tuple(m._desc.get_field_tuples())) for m in rec.records]
    out=[(rec._desc.name, tuple(rec._desc.get_field_tuples()))]
    for k in rec.__slots__:
        v=getattr(rec,k)
        if hasattr(v,"_desc"): out+=desc_of(v)
        elif isinstance(v,list): 
            for x in v:
                if hasattr(x,"_desc"): out+=desc_of(x)
    return out
def check(hist, data, written):
    ev = events(data); known={}; recs=iter(written); viol=[]
    for e in ev:
        if e[0]=="DESC":
            known[(e[1], calc_hash(e[1], e[2]))] = (e[1], e[2])
        elif e[0] in ("REC","GREC"):
            w = next(recs); wd = desc_of(w)
            ids = list(flat(e[1])) if e[0]=="REC" else [x for m in e[1] for x in flat((m[0],m[1],0,m[2]))]
            for (name,h,_), (wname, wfields) in zip(ids, wd):
                d = known.get((name,h))
                if d is None: viol.append(("no-desc-before", name))
                elif d != (wname, wfields): viol.append(("wrong-desc", name, d[1], wfields))
    return viol
stats=collections.Counter(); ex={}
names=list(makers)
for L in (1,2,3):
    for hist in itertools.product(names, repeat=L):
        written=[makers[h]() for h in hist]
        b=io.BytesIO(); w=RecordStreamWriter(b)
        for r in written: w.write(r)
        viol = check(hist, b.getvalue(), written)
        # read back descriptors
        try:
            back = list(RecordStreamReader(io.BytesIO(b.getvalue())))
            rb = [desc_of(x) for x in back]; wb=[desc_of(x) for x in written]
            if rb!=wb: viol.append(("readback-desc-differs",))
        except Exception as e: viol.append(("read-error", type(e).__name__))
        key = tuple(sorted(set(v[0] for v in viol)))
        stats[key]+=1
        if key and key not in ex: ex[key]=(hist, viol[:2])
print(stats)
for k,v in ex.items(): print(k, v)
# which histories are flagged: all contain both A and B?
