import warnings, json, os, tempfile, datetime as dt, io, glob, gzip, sqlite3
warnings.simplefilter("ignore")
from flow.record import RecordDescriptor, RecordWriter, RecordReader
from flow.record.stream import PathTemplateWriter, RecordArchiver
d = tempfile.mkdtemp()
A = RecordDescriptor("t/a", [("string","f")])
def rd(p):
    try: return [r.f for r in RecordReader(p)]
    except Exception as e: return f"ERR {type(e).__name__}: {e}"
for ext in ["records","records.gz","records.bz2","records.lz4","records.zst","json","jsonl","json.gz","avro","csv", "sqlite"]:
    for hist in ["close","flush,close","with","close,close","write,close","write,flush,close","write,with","write,close,close", "write,flush,write,close"]:
        p = os.path.join(d, "h_"+hist.replace(",","_")+"."+ext)
        uri = ("sqlite://"+p) if ext=="sqlite" else p
        try:
            w = RecordWriter(uri); n=0
            for op in hist.split(","):
                if op=="write": w.write(A(f=str(n))); n+=1
                elif op=="flush": w.flush()
                elif op=="close": w.close()
                elif op=="with": w.__exit__(None,None,None)
            res = rd(uri)
        except Exception as e:
            res = f"WERR {type(e).__name__}: {e}"
        exp = [str(i) for i in range(n)]
        if res != exp: print(f"{ext:12} {hist:28} size={os.path.getsize(p) if os.path.exists(p) else None} expected={exp} got={str(res)[:100]}")
