import struct
class Ext:
    def __init__(s, code, data): s.code=code; s.data=data
    def __repr__(s): return f"Ext({s.code},{s.data!r})"
class Str:  # keeps raw utf8 bytes
    def __init__(s, raw): s.raw=raw
    def __repr__(s): return f"Str({s.raw!r})"
    def __eq__(s,o): return isinstance(o,Str) and s.raw==o.raw
    def __hash__(s): return hash(s.raw)
class Bin(bytes): pass
class F32(float): pass
def unpack(b, i=0):
    t=b[i]; i+=1
    if t<=0x7f: return t,i
    if t>=0xe0: return t-256,i
    if 0x80<=t<=0x8f: return _map(b,i,t&0xf)
    if 0x90<=t<=0x9f: return _arr(b,i,t&0xf)
    if 0xa0<=t<=0xbf: n=t&0x1f; return Str(b[i:i+n]), _chk(b,i+n)
    if t==0xc0: return None,i
    if t==0xc2: return False,i
    if t==0xc3: return True,i
    if t in (0xc4,0xc5,0xc6): n,i=_len(b,i,t-0xc4); return Bin(b[i:i+n]), _chk(b,i+n)
    if t in (0xc7,0xc8,0xc9): n,i=_len(b,i,t-0xc7); c=struct.unpack('b',b[i:i+1])[0]; return Ext(c,b[i+1:i+1+n]), _chk(b,i+1+n)
    if t==0xca: return F32(struct.unpack('>f',b[i:i+4])[0]), _chk(b,i+4)
    if t==0xcb: return struct.unpack('>d',b[i:i+8])[0], _chk(b,i+8)
    if t in (0xcc,0xcd,0xce,0xcf): w=1<<(t-0xcc); return int.from_bytes(b[i:i+w],'big'), _chk(b,i+w)
    if t in (0xd0,0xd1,0xd2,0xd3): w=1<<(t-0xd0); return int.from_bytes(b[i:i+w],'big',signed=True), _chk(b,i+w)
    if t in (0xd4,0xd5,0xd6,0xd7,0xd8): n=1<<(t-0xd4); c=struct.unpack('b',b[i:i+1])[0]; return Ext(c,b[i+1:i+1+n]), _chk(b,i+1+n)
    if t in (0xd9,0xda,0xdb): n,i=_len(b,i,t-0xd9); return Str(b[i:i+n]), _chk(b,i+n)
    if t in (0xdc,0xdd): n,i=_len(b,i,t-0xdc+1); return _arr(b,i,n)
    if t in (0xde,0xdf): n,i=_len(b,i,t-0xde+1); return _map(b,i,n)
    raise ValueError("bad type byte %x"%t)
def _chk(b,i):
    if i>len(b): raise ValueError("truncated")
    return i
def _len(b,i,k):
    w=1<<k; _chk(b,i+w); return int.from_bytes(b[i:i+w],'big'), i+w
def _arr(b,i,n):
    out=[]
    for _ in range(n): v,i=unpack(b,i); out.append(v)
    return out,i
def _map(b,i,n):
    out=[]
    for _ in range(n):
        k,i=unpack(b,i); v,i=unpack(b,i); out.append((k,v))
    return dict(out) if all(isinstance(k,(Str,int)) for k,_ in out) else out, i
def unpack_all(b):
    v,i=unpack(b,0)
    if i!=len(b): raise ValueError("extra data")
    return v
def frames(data):
    i=0; out=[]
    while i<len(data):
        if i+4>len(data): raise ValueError("short len")
        n=struct.unpack('>I',data[i:i+4])[0]; i+=4
        if i+n>len(data): raise ValueError("short body")
        out.append(unpack_all(data[i:i+n])); i+=n
    return out
def deext(v):
    if isinstance(v,Ext):
        assert v.code==14
        sub,payload = unpack_all(v.data)
        return ("EXT",sub,deext(payload))
    if isinstance(v,list): return [deext(x) for x in v]
    if isinstance(v,dict): return {k:deext(x) for k,x in v.items()}
    return v
