import warnings, json, os, tempfile, datetime as dt, io, glob, gzip, sqlite3, time
warnings.simplefilter("ignore")
from flow.record import RecordDescriptor, RecordWriter, RecordReader, RecordStreamReader
from flow.record.stream import PathTemplateWriter, RecordArchiver
A = RecordDescriptor("t/a", [("string","f")])
def rd(p):
    try: return [r.f for r in RecordReader(p)]
    except Exception as e: return f"ERR {type(e).__name__}: {e}"
for N, count in [(0,3),(1,3),(3,3),(4,3),(6,3),(7,3),(5,1)]:
  for target in ["out.records", "out.records.gz", "out.json", "out", "out.avro"]:
    for how in ["with","close"]:
        d = tempfile.mkdtemp()
        uri = f"split://{os.path.join(d,target)}?count={count}"
        try:
            w = RecordWriter(uri)
            for i in range(N): w.write(A(f=str(i)))
            if how=="with": w.__exit__()
            else: w.close()
        except Exception as e:
            print("WERR", N, target, how, type(e).__name__, e); continue
        files = sorted(os.listdir(d))
        parts = [rd(os.path.join(d,f)) for f in files]
        flat = [x for p in parts if isinstance(p,list) for x in p]
        ok = flat==[str(i) for i in range(N)] and all(isinstance(p,list) and len(p)<=count for p in parts)
        if not ok or N in (3,): print(N, count, target, how, files, parts)
# rotation
d = tempfile.mkdtemp()
w = PathTemplateWriter(os.path.join(d, "{record.f}.records"))
for i, f in enumerate(["a","b","a","b","a"]):
    R = A(f=f); w.write(R)
w.close()
print(sorted(os.listdir(d)))
tot=0
for f in sorted(os.listdir(d)): 
    x = rd(os.path.join(d,f)); tot+=len(x); print(f, x)
print("total", tot, "of 5")
try:
    w = PathTemplateWriter("{record.f}.records"); os.chdir(d); w.write(A(f="zz")); w.close(); print("dirless ok")
except Exception as e: print("dirless ERR", type(e).__name__, e)
