import warnings, os, tempfile, subprocess, io, json
warnings.simplefilter("ignore")
from flow.record import RecordDescriptor, RecordWriter, RecordReader
d = tempfile.mkdtemp(); os.chdir(d)
A = RecordDescriptor("t/a", [("string","s"),("varint","v"),("datetime","ts"),("datetime","ts2")]); B = RecordDescriptor("t/b", [("varint","v"),("string","other")])
with RecordWriter("g1.records") as w:
    for i in range(6): w.write(A(s=f"a{i}", v=i, ts="2020-01-01", ts2="2021-01-01") if i%2 else B(v=i, other="o"))
def rdump(*args):
    p = subprocess.run(["/venv/bin/rdump", *args], capture_output=True); return p
def rd(p): return [str(r) for r in RecordReader(p)]
p = rdump("g1.records","--multi-timestamp","-F","v,ts","-w","o1.records"); print(p.stderr[-300:]); print(rd("o1.records"))
p = rdump("g1.records","--multi-timestamp","--skip","1","-c","2","-w","o2.records"); print(rd("o2.records"))
p = rdump("g1.records","-w","o3.records","--split","4"); print(sorted(os.listdir(".")), p.stderr[-200:])
for f in sorted(os.listdir(".")):
    if f.startswith("o3"): print(f, rd(f))
p = rdump("g1.records","-w","jsonfile://o4.json?descriptors=true","-X","ts,ts2"); print(open("o4.json").read()[:400])
p = rdump("g1.records","-w","csvfile://o5.csv","-F","v"); print(open("o5.csv").read()[:200])
p = rdump("g1.records","-m","line","-F","v","-c","1"); print(p.stdout.decode())
p = rdump("g1.records","-f","{v}:{s}","-c","2"); print(p.stdout.decode())
p = rdump("g1.records","-E","x = v * 2","-F","x,v","-c","2"); print(p.stdout.decode(), p.stderr.decode()[-200:])
p = rdump("g1.records","-w","o6.records","--record-classification","TLP","-c","1"); print([ (r._classification, r._source) for r in RecordReader("o6.records")])
# in-process main
from flow.record.tools import rdump as rd_mod
rc = rd_mod.main(["g1.records","-w","o7.records","-s","r.v > 2"]); print(rc, rd("o7.records"))
