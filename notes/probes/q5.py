import warnings, datetime as dt, collections, pathlib
warnings.simplefilter("ignore")
from flow.record import RecordDescriptor, RecordPacker
N = RecordDescriptor("t/inner", [("string","i")])
types = ["string","wstring","varint","float","boolean","uint16","uint32","bytes","datetime","net.ipaddress","net.ipnetwork","path","command","digest","uri","filesize","unix_file_mode","dynamic","stringlist","dictlist","record","net.tcp.Port","net.udp.Port","net.ipv4.Address","net.ipv4.Subnet","net.IPAddress","net.IPNetwork"]
cands = [None, 0, 1, -1, 2, 65535, 65536, 2**32-1, 2**32, 2**63, -2**63-1, 10**40, True, False, 1.5, float("nan"), "", "abc", "12", "1.2.3.4", "::1", "10.0.0.0/8", "10.0.0.1/8", "2020-01-01T00:00:00", "not a date", b"", b"\xff", bytearray(b"x"),
         dt.datetime(2020,1,1), dt.datetime(2020,1,1,tzinfo=dt.timezone.utc), [], ["a"], [1], (1,2), {"md5":"d41d8cd98f00b204e9800998ecf8427e"}, ("d41d8cd98f00b204e9800998ecf8427e",None,None), ("zz",None,None), ("aabb",None,None), (None,None), {"a":1}, [{"a":1}], pathlib.PurePosixPath("/x"), pathlib.PureWindowsPath("c:/x"), object(), N(i="q"), "ls -l", "\ud800"]
def short(x):
    try: s = repr(x)
    except Exception as e: s = f"<repr {type(e).__name__}>"
    return s[:28]
for t in types:
    for suffix in ("", "[]"):
        if suffix and t in ("stringlist","dictlist","dynamic"): continue
        tn = t+suffix
        try: D = RecordDescriptor("t/x", [(tn,"f")])
        except Exception as e: print(tn, "DESC-ERR", type(e).__name__, e); continue
        acc=[]; rej=collections.Counter(); unser=[]; untyped=[]
        for c in cands:
            cc = c if not suffix else [c]
            r = D()
            try:
                r.f = cc
            except Exception as e:
                rej[type(e).__name__]+=1; continue
            v = r.f
            ft = D.recordType._field_types["f"]
            ok = v is None or isinstance(v, ft)
            if ok and suffix: ok = all(isinstance(e, ft.__type__) or ft.__type__.__name__=="record" for e in v)
            if not ok: untyped.append((short(c), type(v).__name__))
            acc.append(short(c))
            try: RecordPacker().pack(r)
            except Exception as e: unser.append((short(c), type(e).__name__))
        print(f"{tn:22} acc={len(acc):2} rej={dict(rej)} UNTYPED={untyped} UNSER={unser}")
