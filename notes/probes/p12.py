import warnings
warnings.simplefilter("ignore")
from flow.record import RecordDescriptor, GroupedRecord, ignore_fields_for_comparison, set_ignored_fields_for_comparison
import flow.record.base as base
import datetime as dt
types = {"string":"x","varint":5,"float":1.5,"boolean":True,"uint16":3,"uint32":4,"bytes":b"x","datetime":dt.datetime(2020,1,1),"net.ipaddress":"1.2.3.4","net.ipnetwork":"10.0.0.0/8",
 "path":"/a/b","command":"ls -l","digest":("d41d8cd98f00b204e9800998ecf8427e",None,None),"uri":"http://x","filesize":5,"unix_file_mode":0o644,"dynamic":"x","stringlist":["a"],"dictlist":[{"a":1}],"wstring":"w","record":None}
N = RecordDescriptor("t/inner", [("string","i")])
types["record"] = N(i="q", _generated=dt.datetime(2020,1,1))
for t,v in types.items():
  for suffix in ("", "[]"):
    if suffix and t in ("stringlist","dictlist","dynamic"): continue
    tn = t+suffix
    try:
        D = RecordDescriptor("t/x", [(tn,"f")])
        val = [v,v] if suffix else v
        a = D(f=val, _generated=dt.datetime(2020,1,1)); b = D(f=val, _generated=dt.datetime(2020,1,1))
    except Exception as e:
        print(tn, "CONSTRUCT", type(e).__name__, e); continue
    out=[]
    for name, fn in [("eq", lambda: a==b), ("ne", lambda: a!=b), ("hash", lambda: hash(a)==hash(b)), ("set", lambda: len({a,b}))]:
        try: out.append(f"{name}={fn()}")
        except Exception as e: out.append(f"{name}!{type(e).__name__}:{str(e)[:40]}")
    print(f"{tn:20}", out)
g1 = GroupedRecord("t/g", [N(i="a", _generated=dt.datetime(2020,1,1))]); g2 = GroupedRecord("t/g", [N(i="a", _generated=dt.datetime(2020,1,1))])
for name, fn in [("eq", lambda: g1==g2), ("eq-plain", lambda: g1==N(i="a")), ("plain-eq-g", lambda: N(i="a")==g1), ("hash", lambda: hash(g1))]:
    try: print("grouped", name, fn())
    except Exception as e: print("grouped", name, "!", type(e).__name__, e)
# ignore scope
print(base.IGNORE_FIELDS_FOR_COMPARISON)
try:
    with ignore_fields_for_comparison(["_generated"]):
        print(base.IGNORE_FIELDS_FOR_COMPARISON); raise KeyError
except KeyError: pass
print(base.IGNORE_FIELDS_FOR_COMPARISON)
D = RecordDescriptor("t/x", [("string","f")]); a=D(f="1"); b=D(f="1")
print(a==b)
with ignore_fields_for_comparison(["_generated"]): print(a==b, hash(a)==hash(b))
with ignore_fields_for_comparison(iter(["_generated"])): print(a==b, hash(a)==hash(b))
# float nan
F = RecordDescriptor("t/x", [("float","f")]); a=F(f=float("nan"), _generated=dt.datetime(2020,1,1)); print("nan refl", a==a)
