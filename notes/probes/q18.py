import warnings, os, tempfile, random, sqlite3, collections, datetime as dt
warnings.simplefilter("ignore")
from flow.record import RecordDescriptor, RecordWriter
rng = random.Random(2)
descs = [RecordDescriptor("t/a", [("string","s"),("varint","v")]), RecordDescriptor("t/a", [("string","s"),("varint","v"),("float","extra")]), RecordDescriptor("t/b", [("bytes","b")]), RecordDescriptor("select", [("string","from")])]
base = tempfile.mkdtemp(); stats=collections.Counter()
for case in range(200):
    p = os.path.join(base, f"{case}.db"); bs = rng.choice([1,2,3,7,1000])
    w = RecordWriter(f"sqlite://{p}?batch_size={bs}"); con = sqlite3.connect(p)
    def total():
        return sum(con.execute(f'select count(*) from "{t}"').fetchone()[0] for (t,) in con.execute("select name from sqlite_master where type='table'").fetchall())
    seen=set(); V_prev=0; ok=True; k=0
    n = rng.randrange(0,25)
    for i in range(n):
        d = rng.choice(descs[:rng.randint(1,4)])
        r = d(); w.write(r); k+=1
        newdesc = d not in seen; seen.add(d)
        V = total()
        allowed = {V_prev}
        if k % bs == 0: allowed = {k}
        if newdesc: allowed |= {k-1, k} if k % bs else {k}
        if not (V in allowed and V<=k and V>=V_prev): ok=False; print("VIOL", case, bs, k, V, V_prev, newdesc)
        V_prev=V
        if rng.random()<.1:
            w.flush(); V_prev = total(); 
            if V_prev!=k: ok=False; print("FLUSH VIOL", case, k, V_prev)
    w.close()
    if total()!=k: ok=False; print("CLOSE VIOL", case, k, total())
    stats[ok]+=1; con.close()
print(stats)
