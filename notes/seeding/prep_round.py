import json,glob,sys,subprocess
rnd=sys.argv[1]; ids=sys.argv[2:]
for l in open('/verif/properties.jsonl'):
    p=json.loads(l)
    if p['id'] in ids:
        wt='/tmp/seed%s-%s'%(rnd,p['id'])
        subprocess.run(['git','-C','/repo','worktree','add','-q','--detach',wt,'HEAD'],check=True)
        prop="Property %s: %s\n\nStatement: %s\n\nQuantifier: %s\n\nAnchors (where the code that is meant to make it hold lives): files %s; mechanisms: %s\n" % (p['id'],p['title'],p['statement'],p['quantifier']['text'],", ".join(p['anchors']['files']), "; ".join(m['name'] for m in p['anchors']['mechanism']))
        prev=[]
        for d in sorted(glob.glob('/verif/seeded/%s-*seed*'%p['id'])):
            m=json.load(open(d+'/meta.json')); prev.append("- "+str(m.get('summary',''))[:400].replace("\n"," "))
        t=open('/tmp/seed_prompt.txt').read().replace('{WT}',wt).replace('{PROPERTY}',prop)
        if p['id']=='C16': t+="\nNote: the command-line tool is /venv/bin/rdump (entry point flow.record.tools.rdump:main); to run the worktree's code use `PYTHONPATH=%s /venv/bin/python -m flow.record.tools.rdump ...`.\n"%wt
        t+="\n\nIMPORTANT: earlier rounds already produced the following changes for this property. Yours must be DIFFERENT in mechanism and in the code they touch (other functions / other field types / other adapters / other configurations / other operation sequences / other fault points); do not produce variations of these:\n"+"\n".join(prev)+"\n"
        open('/tmp/seed%s-%s.prompt'%(rnd,p['id']),'w').write(t)
        print('prepared',wt)
